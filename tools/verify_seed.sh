#!/bin/bash
# usage: tools/verify_seed.sh <ID> [cargo feature list for the demo]
# In the scratch worktree /tmp/seed/<ID> (change + demo applied): (1) the demo fails with the change,
# (2) passes without it, (3) the repository's own suite still passes with the change.
# Writes /verif/seeded/<ID>/verify.log
ID="$1"; FEAT="${2:-}"
WT=/tmp/seed/$ID
OUT=/verif/seeded/$ID/verify.log
cd "$WT" || exit 2
export CARGO_NET_OFFLINE=true
FA=""; [ -n "$FEAT" ] && FA="--features $FEAT"
{
echo "## $(date -u +%FT%TZ) verify $ID (worktree $WT at $(git rev-parse --short HEAD))"
git diff -- core/src > /tmp/seed/$ID.change.patch
echo "## demo WITH the change (expected: fails)"
cargo test -p rzmq --offline $FA --test seeded_demo 2>&1 | grep -E "^test |test result|panicked at|error\[" | head -20
echo "## demo WITHOUT the change (expected: passes)"
git checkout -- core/src
cargo test -p rzmq --offline $FA --test seeded_demo 2>&1 | grep -E "^test |test result|panicked at|error\[" | head -20
git apply /tmp/seed/$ID.change.patch
echo "## repository suite WITH the change (demo file moved aside)"
mv core/tests/seeded_demo.rs /tmp/seed/$ID.seeded_demo.rs
timeout 1500 cargo nextest run --workspace --no-fail-fast --tool-config-file pb:/w/lib/nextest.toml --profile pb --test-threads 8 --offline 2>&1 | grep -E "Summary|^\s+(FAIL|TIMEOUT)" | sort -u
mv /tmp/seed/$ID.seeded_demo.rs core/tests/seeded_demo.rs
} > "$OUT" 2>&1
tail -25 "$OUT"
