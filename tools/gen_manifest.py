#!/usr/bin/env python3
"""Regenerates /verif/MANIFEST.json from the table below and validates it against the schema."""
import json, subprocess, sys, os

ROOT = "/verif"
HOOK_COMMITS_FILE = os.path.join(ROOT, "tools", "hook_commits.txt")

# id -> (category, technique, level text, level note, design ref)
CHECKS = {
  "C03": ("exploration",
          "property-based testing (proptest): reference-encoder differential + round-trip over generated frame sequences and segmentations; exhaustive single-cut enumeration on boundary lengths; thorough tier adds a libFuzzer stage (target decoders: 400 000 executions, reference-decoder oracle inside the target)",
          "Generated search, not proof: thousands of frame sequences x segmentations per run, every encoder compared byte-for-byte with an independent reference encoder and every decoder with the original sequence; the finite sub-space of single cuts over boundary-length two-frame streams is enumerated completely.",
          "Trusts the harness's RFC-derived reference encoder/decoder; decoders run with MAXMSGSIZE=-1; COMMAND frames only through the encoders rzmq uses for commands.",
          "DESIGN.md §2 C03"),
  "C04": ("exploration",
          "property-based testing (proptest): metamorphic re-segmentation of reference-encoded peer transcripts against the engine (exhaustive single cuts per transcript + random cut sets), live engine pairs for all four mechanisms, and raw tcp/unix peers with controlled write boundaries against real sockets (sentinel-closed FIFO oracle)",
          "Generated search over transcripts x segmentations; per transcript the single-cut space is enumerated completely at engine level; the stack level samples write boundaries around the end of the handshake on tcp and ipc, both roles, both runtimes.",
          "NULL/PLAIN/v2 transcripts do not depend on rzmq's bytes (replayable); CURVE/NOISE are covered by live engine pairs only; stack cases rely on a 40 ms pause to force separate reads and on the sentinel for completeness; io_uring backend is covered under C20.",
          "DESIGN.md §2 C04"),
  "C05": ("exploration",
          "property-based testing (proptest): engine pairs under generated delivery schedules with an EOF model, a harness ZMTP/2.0 speaker, and an exhaustive socket-type verdict matrix compared with the RFC pairing table (v3, v2, inproc)",
          "Generated search over endpoint configurations x delivery schedules (thousands per run) with an independent statement of compatibility; the 8x11 verdict matrix is enumerated completely for ZMTP/3.x, ZMTP/2.0 and inproc.",
          "Sans-IO: the driver models the link and EOF; pairing table per RFC 28-31/libzmq; known finding: inproc pairing table is narrower (suite pins DEALER-DEALER invalid).",
          "DESIGN.md §2 C05"),
  "C06": ("exploration",
          "property-based testing (proptest): grammar-based attacker streams against engines configured with PLAIN/CURVE/NOISE_XX, judged by a reference automaton of legitimate completions; positive controls; raw attacker peers against real sockets with a sentinel from an honest peer",
          "Generated search: tens of thousands of attacker streams per run (45% reaching the configured mechanism's own token parser, PLAIN listeners with complete and incomplete credentials offered wrong, partial and empty ones, 30% ZMTP/2.0 greetings) x random segmentation; the oracle is 'no HandshakeComplete and no DeliverMessage, ever' except for the streams the reference automaton calls legitimate; stack-level spot checks on tcp/ipc in both roles.",
          "The attacker performs no real CURVE/Noise cryptography and never has the configured password; a PLAIN client has no secret to verify (WELCOME+READY is legitimate). Panics are C07's subject and only counted here.",
          "DESIGN.md §2 C06"),
  "C07": ("fault_enumeration",
          "mutation-based fuzzing driven by proptest: byte- and frame-aware mutators (length extremes, MORE runs, malformed READY / CURVE tokens, truncation, splices) over honest transcripts and over live engine pairs via a man in the middle; stand-alone parser fuzz with a reference-decoder differential; MAXMSGSIZE boundary; raw slow / malformed peers against real sockets; thorough tier adds a libFuzzer stage (target engine_stream: 30 000 executions with a ZMTP dictionary, oracles inside the target)",
          "Fault injection over every handshake type and role: tens of thousands of mutated streams per run with the oracles 'no panic', 'read buffer within MAXMSGSIZE+9 plus one chunk', 'an error is terminal', 'limit accepted, limit+1 refused'; stack level adds the handshake-interval, slot-release and isolation oracles with real sockets.",
          "CURVE/NOISE deep states are reached only through the live man-in-the-middle (no real attacker cryptography); buffer bound observed on the engine's accumulator; stack timings allow 2 s slack (session minimum lifespan is 1 s); MAXMSGSIZE below the handshake's own frame sizes is skipped (rzmq applies the limit to command frames, so no handshake completes).",
          "DESIGN.md §2 C07"),
  "C18": ("fault_enumeration",
          "property-based testing (proptest) over CURVE/NOISE_XX engine pairs: generated message/batch/heartbeat sequences with embedded markers (round-trip + secrecy oracle), record-level tampering by a man in the middle (flip, truncate, drop, duplicate, swap, replay, inject, reflection of the receiver's own record) with a prefix oracle, equal plaintexts in both directions of one session, twin sessions for ciphertext repetition",
          "Generated search with injected faults: every case runs untouched (everything the sender accepted must be delivered, nothing in clear on the wire, sizes around the 64 KiB record limit) and tampered (the receiver may only deliver an intact prefix and must close).",
          "Sans-IO engine level; the tamperer has no keys; known findings: heartbeats bypass the record layer, CURVE session keys/nonces repeat across sessions.",
          "DESIGN.md §2 C18"),
  "C19": ("exploration",
          "property-based testing (proptest): PING/PONG echo oracle over generated command/data streams and segmentations, ZMTP/2.0 tick silence, model-based testing of the egress buffer (reference queue + written-stream parse), real-clock timelines judged by the reference heartbeat rule on measured instants, engine-pair heartbeat round trips under all four mechanisms, raw peers (answering / silent / data-but-no-PONG / pinging) against real sessions",
          "Generated search: thousands of heartbeat command streams and egress histories per run (pure, deterministic), hundreds of millisecond-scale timelines with ambiguous brackets skipped and counted, and a dozen stack scenarios with generous real-time bounds.",
          "Real clock for the timed parts (engine stamps activity with Instant::now()); stack bounds: PING within [ivl-25ms, 2*ivl+250ms] of the last activity, dead peer closed no earlier than the timeout; known finding: PING/PONG bypass the record layer on CURVE/NOISE_XX; io_uring backend's missing heartbeat clock belongs to C20.",
          "DESIGN.md §2 C19"),
  "C12": ("exploration",
          "model-based property testing (proptest): subscribe/unsubscribe/matches histories against a multiset model of the trie; PUB->SUB end-to-end phases with marker-delimited quiescent windows and a reference subscription set per subscriber; stalled / reset subscriber scenario with a publisher-latency oracle",
          "Generated search: tens of thousands of trie histories per run checked step by step against an independent model; dozens of end-to-end cases over tcp/ipc/inproc and both runtimes with exact expected delivery per phase; a few stalled-subscriber runs.",
          "Subscription changes are only made in quiescent windows (otherwise 'when the message reaches it' is ambiguous); known finding: PUB blocks on a subscriber at HWM.",
          "DESIGN.md §2 C12"),
  "C17": ("fault_enumeration",
          "property-based fault injection (proptest): generated fault sequences from raw peers (garbage per phase, wrong mechanism, incompatible type, data-phase violations, RST, half-close, connect bursts) against a socket with a healthy peer; refused inproc connects; reconnect attempts timed at a raw listener that accepts and closes; exhaustive-style arithmetic check of the back-off rule",
          "Fault sequences on some connections while numbered healthy traffic must continue after every fault, a fresh peer must still get in, and no task may panic; the back-off rule (d0 = ivl, geometric growth at most, cap, reset) is checked on 20 000 parameter triples and observed on the wire.",
          "Timing bounds allow for the session's 1 s minimum lifespan; the OS schedule is sampled, not owned.",
          "DESIGN.md §2 C17"),
  "C01": ("exploration",
          "property-based testing (proptest) of end-to-end workloads over real sockets: accounting payloads (sender, sequence, frame index/count, crc) + sentinel-closed per-connection FIFO oracle; generators aim message sizes at the logical and physical batch ceilings (incl. the overtake motif), HWM 1..256, batch options, first send straight after connect(), stalling receivers",
          "Generated search: hundreds of workloads per run across five socket pairs, three transports and three runtime shapes; the receiver decides loss, duplication, reordering, truncation and corruption from the payloads alone.",
          "The OS schedule is sampled, not owned; options set before bind/connect; ROUTER sends only after the peer identity is known; REQ single-frame.",
          "DESIGN.md §2 C01"),
  "C08": ("exploration",
          "schedule fuzzing of the real ReadyPipeQueue with a deterministic thread scheduler (one OS thread per logical task, yields at cfg-gated schedule points between each channel write / counter update / dequeue / re-arm and on every Pending): bounded-exhaustive enumeration of all schedules up to k preemptions for eight small scenarios (among them pipes deregistered with a backlog) + proptest-generated scenarios and random decision lists; deadlock detection + exactly-once / per-pipe FIFO / reserved>=queued oracles",
          "Systematic: every schedule with at most k decisions (k=3 quick, 4 thorough) of eight fixed scenarios is executed on the real code, plus thousands of sampled (scenario, schedule) pairs; 'no runnable task while work is outstanding' is a detected lost wake-up.",
          "Each fibre channel operation and each atomic is one step (no exploration inside the channel or of memory ordering); per-pipe FIFO only judged with one consumer.",
          "DESIGN.md §2 C08"),
  "C13": ("exploration",
          "model-based property testing (proptest) of the real OutgoingMessageOrchestrator with scripted connections (add/remove/set_room/send histories; exactly-one, ready-only, never-refuse-while-ready, exact round-robin on stable windows, bounded pass-over); bounded-exhaustive schedule enumeration of the wait-for-first-peer window (1, 2 and 3 waiting senders) with the deterministic scheduler; PUSH with one never-reading PULL end to end",
          "Generated histories (15 000 per run) against consequences of round-robin rather than the cursor value; the check-then-wait window is enumerated exhaustively up to the preemption bound; a few end-to-end stalled-peer runs.",
          "Single-threaded histories at L1; known finding: the send blocks on one full peer while others drain.",
          "DESIGN.md §2 C13"),
  "C14": ("exploration",
          "property-based testing (proptest) of flood-then-drain scenarios: empty-queue recv and full-queue send judged against RCVTIMEO/SNDTIMEO (exact under tokio's paused clock on inproc, with slack on tcp/ipc), accepted-count against a stated HWM bound, and accounting payloads behind a sentinel for 'nothing accepted is lost, nothing refused is delivered'; directed infinite-timeout waits (1000 virtual seconds; 32 real seconds in the thorough tier)",
          "Generated search over four socket pairs x transports x HWM/timeout/batch options x which side binds; timing is exact where the harness owns the clock (paused runtime) and bounded elsewhere.",
          "Bound on buffered messages is generous by design (3*(SNDHWM+RCVHWM) + 2*batch counts + kernel allowance + 64): the property names no constant.",
          "DESIGN.md §2 C14"),
  "C15": ("exploration",
          "property-based testing (proptest): bursts of accounting-payload messages followed immediately by close()/term() under generated LINGER, sizes up to beyond the kernel socket buffers, reader pacing; receiver-side reconstruction (whole, intact, ordered, no duplicates) + delivery and duration oracles per LINGER class",
          "Generated search over LINGER values x burst shapes x close styles x transports; integrity is checked for every LINGER, completeness for -1/ample, duration for 0/bounded.",
          "The receiver stops after 1.5 s of silence once the sender's context has terminated; known finding: data already inside the session is discarded at close.",
          "DESIGN.md §2 C15"),
  "C16": ("exploration",
          "property-based testing (proptest) of generated termination programs (operations in flight: dead-endpoint connector, stalled handshake peer, send blocked at HWM, blocked recv, traffic, monitor; ended by term / close+term / concurrent close+term after 0..49 ms) with liveness-by-bound, closed-socket, live-actor, re-bind and runtime-task oracles; bounded-exhaustive schedule enumeration of WaitGroup::wait vs done() with the deterministic scheduler",
          "Generated programs (48 quick / 3000 thorough) with generous real-time bounds; the wait-group window is enumerated exhaustively up to the preemption bound.",
          "Bounds: term 15 s (9 s flags the internal fallback), calls on closed sockets 1 s, actors 2 s, tasks 3 s; watchdog hits are inconclusive.",
          "DESIGN.md §2 C16"),
  "C02": ("exploration",
          "model-based property testing (proptest): FrameBatch operation sequences against a Vec model; end-to-end scripts with several sending peers, generated read styles (recv / recv_multipart / mixed) and attach/detach events while a message is half read, judged by parsing the delivered frame stream back into whole accounting messages; oversize send_multipart (254..300 frames) must be refused or delivered whole, never panic",
          "Generated search: 20 000 container histories and 120 end-to-end scripts per quick run (2 500 thorough) over four receiver types and three transports; contiguity, flags, no-strict-subset and completeness are decided from the payloads.",
          "Detach events only hit peers other than the one whose message is being read; completeness only for peers that stayed connected; >255 inbound frames from a raw peer are covered by C07.",
          "DESIGN.md §2 C02"),
  "C09": ("fault_enumeration",
          "enumerated cancellation points: every public send/recv future of 18 (socket type, operation, condition) scenarios is run once to completion on a current-thread runtime with tokio's paused clock counting its Pending polls and wake-ups, then re-run dropping it after each Pending, after each wake-up without another poll, and at 11 virtual times around the moment the blocking condition ends; sampled drop points for the same scenarios over tcp/ipc on a multi-thread runtime; C01/C02 accounting payloads + sentinel decide loss / duplicate / partial delivery and the next valid call",
          "Every Pending index and wake-up index of each scenario under the paused single-thread schedule (complete for that schedule) + sampled drop points on a 2-thread runtime (52 quick, 720 thorough).",
          "Scenarios are a fixed list (send without peer, send and send_multipart under back-pressure, parked recv with arrival, recv inside a multipart message, ROUTER and DEALER frame-by-frame sends); PUB/XPUB/XSUB sends never return Pending in these scenarios and are not listed; internal (timeout) cancellation is C14's subject. After a dropped send of a later ROUTER frame the continuation is a retry of that frame, not an abandoned message.",
          "DESIGN.md §2 C09"),
  "C10": ("exploration",
          "model-based property testing (proptest): generated call histories on REQ (scripted responder, timeouts) and REP (1..3 requesters, replies carrying the request id, idle peers leaving in mid-history) judged step by step by the reference alternation automaton; forced races through a process-wide schedule-point barrier right after the state check (two tasks on a 4-thread runtime)",
          "Generated histories (150 per socket type quick, 5000 thorough) over three transports + deterministic forced races; reply routing is decided from the payloads.",
          "A call failing for a non-state reason leaves the state unchanged (reference model); free-running multi-task histories with a linearisability search are not built - the forced races cover the check-then-act windows deterministically. Known finding: a timed-out REQ.recv resets the FSM.",
          "DESIGN.md §2 C10"),
  "C11": ("exploration",
          "property-based testing (proptest): ROUTER with 1..5 DEALER/REQ peers whose routing ids are absent / 1 byte / 255 bytes / random / colliding, payloads with empty frames in every position and embedded sender/addressee labels; identity-frame, placeholder-stability, only-to-the-announcer, payload round-trip (both directions), unroutable and reconnect-with-same-identity oracles; frame-by-frame ROUTER sends while another peer leaves or joins between two frames",
          "Generated search (80 cases quick, 2000 thorough) over transports, runtimes, ROUTER_MANDATORY and AUTO_DELIMITER; every judgement is made from labels inside the payloads.",
          "REQ peers only with AUTO_DELIMITER on (REQ has no such switch); in manual mode only 'the payload arrives unchanged after the raw envelope' is asserted (the mode is undocumented); ROUTER-ROUTER peers not generated.",
          "DESIGN.md §2 C11"),
  "C20": ("exploration",
          "differential property testing (proptest) in child processes: each generated case = one io_uring pool configuration (2..16 send / receive buffers of 4..64 KiB) + 1..3 workloads; every workload runs on the Tokio backend and on io_uring (zero-copy / multishot / cork / threshold knobs generated) in one child process of the harness built with rzmq's io-uring feature; oracles: equal delivered messages per connection, monitor event kinds, error kinds and raw-peer observations; absolute accounting; after quiescence cfg-gated gauges (send pool free = total, no receive chunk lent out, ring fully provided, no handler left), fd life-cycle log (one successful Close per registered fd) and /proc/self/fd count",
          "Generated search (64 cases quick, 1600 thorough); workloads: rzmq-to-rzmq streams with reconnect churn and NULL/PLAIN/CURVE, raw peers that stall, break the handshake in 7 ways, feed chunked traffic with poisoned tails or a FIN right behind the data, drop the connection repeatedly; fan-in of 2..12 connections into one socket.",
          "Timing, counts of timeouts under back-pressure and Disconnected events are not compared; SQPOLL and the spinning polling strategies are not generated; a workload whose Tokio run already fails its accounting is not judged. Three known findings (failed handshakes are silent and not retried on io_uring; PUSH/PUB without multishot never see the peer's FIN; from the ninth concurrent connection on the establishment notification can be dropped and the connection is never attached). The ZMTP handler of this tree never takes the zero-copy send path, so the send-pool give-back is only observed as a gauge at rest.",
          "DESIGN.md §2 C20"),
}

NOT_YET = {
}

def main():
    props = [json.loads(l) for l in open(os.path.join(ROOT, "properties.jsonl"))]
    hook_commits = [l.strip() for l in open(HOOK_COMMITS_FILE)] if os.path.exists(HOOK_COMMITS_FILE) else []
    checks = []
    na = []
    for p in props:
        pid = p["id"]
        if pid in CHECKS:
            cat, tech, text, note, ref = CHECKS[pid]
            checks.append({
                "property_id": pid,
                "quick_cmd": f"./check {pid} --tier quick",
                "thorough_cmd": f"./check {pid} --tier thorough",
                "evidence_file": f"/verif/evidence/{pid}.json",
                "replay_cmd_template": f"./check {pid} --replay {{path}}",
                "engine": "rzmq-verif",
                "level_claimed": {"category": cat, "text": text, "design_ref": ref},
                "level_note": note,
                "technique": tech,
            })
        else:
            na.append({"property_id": pid, "reason": NOT_YET.get(pid, "check not built yet in this commit (construction order in DESIGN.md §5); not claimed until its check exists")})
    m = {
        "version": 1,
        "setup_cmd": "cd /verif/harness && CARGO_NET_OFFLINE=true cargo build --bin rzmq-verif && CARGO_NET_OFFLINE=true cargo build --bin rzmq-verif --features uring --target-dir /verif/target/uring",
        "hooks": {
            "guard": "--cfg rzmq_verif",
            "enable": "harness/.cargo/config.toml sets rustflags = [\"--cfg\", \"rzmq_verif\"]; the harness depends on rzmq by path (/repo/core), so every ./check rebuilds rzmq from /repo's working tree with the hooks compiled in",
            "baseline_off_cmd": "cd /repo && cargo nextest run --workspace --no-fail-fast --tool-config-file pb:/w/lib/nextest.toml --profile pb --test-threads 8 --offline",
            "source_commits": hook_commits,
            "add_only": True,
        },
        "engines": [
            {"name": "rzmq-verif", "path": "/verif/harness", "serves_properties": sorted(CHECKS.keys()),
             "kind_free_text": "one Rust binary: proptest TestRunner-driven generators (seeded from VERIF_SEED), bounded-exhaustive enumerators, reference models and oracles per property; writes evidence/<id>.json and replay files"},
        ],
        "checks": checks,
        "not_applicable": na,
        "notes": "Technique family: property-based testing and fuzzing. Exit codes: 0 held, 1 VIOLATION, 2 inconclusive. known_findings.json lists recorded/fixed findings by exact signature.",
    }
    out = os.path.join(ROOT, "MANIFEST.json")
    json.dump(m, open(out, "w"), indent=1)
    try:
        import jsonschema
        jsonschema.validate(m, json.load(open("/root/.vp/MANIFEST.schema.json")))
        print("MANIFEST.json valid;", len(checks), "checks,", len(na), "not claimed")
    except ImportError:
        print("jsonschema not available; wrote MANIFEST.json unvalidated")

if __name__ == "__main__":
    main()
