#!/usr/bin/env python3
import json,sys
pid=sys.argv[1]
props={json.loads(l)["id"]:json.loads(l) for l in open("/verif/properties.jsonl")}
p=props[pid]
wt=f"/tmp/seed/{pid}"
print(f"""You are helping to evaluate a verification framework for the Rust crate `rzmq` (a pure-Rust async ZeroMQ implementation on Tokio). Your job: produce ONE realistic code change to rzmq that BREAKS the semantic property below, while the crate still compiles and the existing test-suite still passes. Think of a plausible regression a maintainer could introduce (an "optimisation", a refactoring slip, an off-by-one, a dropped re-check, a swapped order) - not sabotage that any smoke test would catch.

Your private scratch git worktree of the repository is: {wt}
Work ONLY inside that directory. Do not read or write anything under /repo or /verif. Do not commit. No network: always use `CARGO_NET_OFFLINE=true cargo ... --offline`.

THE PROPERTY (JSON record; `anchors` name the files and mechanisms it lives in):
{json.dumps(p, indent=1)}

What to deliver:
1. A change to files under {wt}/core/src (keep it small: ideally 1-15 changed lines) that breaks the property. Prefer a change that needs something SPECIFIC to manifest: a particular size or boundary value, a particular order of events, a particular configuration/option, a rarely taken branch, a second peer, a reconnect, an error path. A change that breaks every use of the feature is not useful.
2. A demonstration: a new integration test file `{wt}/core/tests/seeded_demo.rs` (tokio tests using only rzmq's public API, raw TcpStream peers are fine) - or, if the property concerns crate-internal code that has no public surface, a `#[cfg(test)]` unit test added to the touched module - that PASSES on the unmodified code and FAILS with your change. Run it both ways and report both results. IMPORTANT: do NOT use `git stash` (the stash is shared between all worktrees of this repository and other people are working in sibling worktrees); to test without your change do `git diff -- core/src > /tmp/seed/{pid}.mychange.patch && git checkout -- core/src`, run the demo, then `git apply /tmp/seed/{pid}.mychange.patch`.
3. Evidence that it compiles and that the relevant existing tests still pass with your change: run `cd {wt} && CARGO_NET_OFFLINE=true cargo build -p rzmq --offline` and the existing tests that touch the code you changed, e.g. `CARGO_NET_OFFLINE=true cargo test -p rzmq --offline --test <name>` and `CARGO_NET_OFFLINE=true cargo test -p rzmq --offline --lib <module>` (the full suite takes several minutes and is timing sensitive; run at least every test file that exercises the changed code path. The interop tests `rzmq_interop` need pyzmq and fail in this sandbox regardless - ignore them. `stress ... connection_churn` also fails regardless.) If an existing test fails because of your change, pick a different change.
4. When done, leave the worktree with BOTH your src change and the demo test file in place (uncommitted), and reply with a short report:
   - FILES: changed source files
   - WHAT: one paragraph, what the change does and why it breaks the property
   - NEEDS: what specific input / schedule / configuration is needed for the breakage to manifest
   - DEMO: the command to run the demonstration, its result with and without the change
   - TESTS: which existing tests you ran with the change applied, and their results

Hints: the repository builds offline; a debug build of the crate takes 1-2 minutes. `{wt}/core/tests/common/mod.rs` has helpers used by the existing integration tests (look at an existing test such as core/tests/push_pull.rs for the idiom). The cfg `rzmq_verif` and the module core/src/verif.rs are verification hooks - leave them alone. Keep the change to non-hook code. Be economical: one good change, verified, is the goal.""")
