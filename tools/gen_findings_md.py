#!/usr/bin/env python3
"""Rewrites the block between <!-- FINDINGS:BEGIN --> and <!-- FINDINGS:END --> in DESIGN.md from
known_findings.json (fixed entries and known findings), so the document cannot drift from the file
the checks actually read."""
import json, os, re
ROOT = os.path.dirname(os.path.dirname(os.path.abspath(__file__)))
k = json.load(open(os.path.join(ROOT, "known_findings.json")))
fixed = [e for e in k if e.get("status") == "fixed"]
known = [e for e in k if e.get("status") == "known"]
out = []
out.append("**Repaired in /repo (`fix:` commits; a fixed entry suppresses nothing)** — %d entries\n" % len(fixed))
out.append("| property | commit | what failed |")
out.append("|---|---|---|")
for e in sorted(fixed, key=lambda e: e["property"]):
    what = re.sub(r"^fixed: property=\S+ \S+ ", "", e["what"]).replace("|", "\\|")
    out.append("| %s | `%s` | %s |" % (e["property"], e.get("commit", "?"), what))
out.append("")
out.append("**Recorded, not repaired (`status: known`; printed as KNOWN-FINDING, matched by signature)** — %d entries\n" % len(known))
out.append("| property | key | signature | what fails and why it is not a small repair |")
out.append("|---|---|---|---|")
for e in sorted(known, key=lambda e: e["property"]):
    out.append("| %s | `%s` | `%s` | %s |" % (e["property"], e["key"], json.dumps(e.get("signature", {})).replace("|", "\\|"), e["what"].replace("|", "\\|")))
block = "\n".join(out)
p = os.path.join(ROOT, "DESIGN.md")
s = open(p).read()
b, e = "<!-- FINDINGS:BEGIN -->", "<!-- FINDINGS:END -->"
if b in s and e in s:
    s = s[: s.index(b) + len(b)] + "\n" + block + "\n" + s[s.index(e):]
    open(p, "w").write(s)
    print("DESIGN.md findings block rewritten: %d fixed, %d known" % (len(fixed), len(known)))
else:
    print(block)
