#!/bin/bash
# usage: tools/try_seed.sh <seed-dir> <ID> [<ID>...]
# Applies <seed-dir>/patch.diff to /repo's working tree, runs the quick tier of the named checks
# against it, and restores the tree. Never commits anything in /repo.
set -u
SEED="$1"; shift
cd /verif || exit 2
if ! git -C /repo diff --quiet; then echo "/repo working tree is not clean"; exit 2; fi
git -C /repo apply "$(realpath "$SEED")/patch.diff" || { echo "patch does not apply"; exit 2; }
trap 'git -C /repo checkout -- . ; git -C /repo clean -fdq core/tests/seeded_demo.rs 2>/dev/null' EXIT
for id in "$@"; do
  echo "=== $id on $(basename "$SEED") ==="
  VERIF_SEED=${VERIF_SEED:-1} ./check "$id" --tier "${TIER:-quick}" 2>&1 | grep -v "^proptest:" | grep -E "VIOLATION|KNOWN-FINDING: property|INCONCLUSIVE|^property=|check=" | cut -c1-400 | head -12
  echo "exit=${PIPESTATUS[0]}"
done
