#!/bin/bash
# usage: tools/run_all.sh [quick|thorough]   - runs every registered check from /verif against /repo,
# one after the other; prints one line per check and the total.
cd "$(dirname "$0")/.." || exit 2
TIER="${1:-quick}"
bad=0
for id in C01 C02 C03 C04 C05 C06 C07 C08 C09 C10 C11 C12 C13 C14 C15 C16 C17 C18 C19 C20; do
  t0=$(date +%s)
  out=$(./check $id --tier $TIER 2>&1); code=$?
  t1=$(date +%s)
  echo "$id exit=$code $((t1-t0))s $(echo "$out" | grep -E '^property=' | tail -1 | cut -c1-160)"
  echo "$out" | grep -E "^VIOLATION|^INCONCLUSIVE" | head -3
  [ $code -ne 0 ] && bad=$((bad+1))
done
echo "checks with non-zero exit: $bad"
