#!/usr/bin/env python3
"""Generates /verif/seeded/README.md from the meta.json files."""
import json, os, glob
ROOT = os.path.dirname(os.path.dirname(os.path.abspath(__file__)))
rows = []
for f in sorted(glob.glob(os.path.join(ROOT, "seeded", "*", "meta.json"))):
    m = json.load(open(f))
    rows.append(m)
out = ["# Seeded changes", "",
       "Each directory holds one change to rzmq that breaks the named property while the crate still compiles and the",
       "repository's own suite still passes: `patch.diff` (source change only), `seeded_demo.rs` (the author's",
       "demonstration: passes without the change, fails with it), `meta.json`, `verify.log` (my own re-run in a scratch",
       "worktree: demo with / without the change, full suite with the change). The changes were written by fresh",
       "sub-agents that were given only the property record and a scratch worktree. None of them is ever committed to /repo;",
       "`tools/try_seed.sh <dir> <ID>...` applies one, runs the named checks and restores the tree.", "",
       "| seed | breaks | change | needs, in order to manifest | caught by (quick tier) | note |",
       "|---|---|---|---|---|---|"]
for m in rows:
    out.append("| %s | %s | %s | %s | %s | %s |" % (m["seed"], m["property"], m["what"].replace("|", "\\|"), m["needs"].replace("|", "\\|"), ", ".join(m.get("caught_by", [])) or "-", m.get("note", "").replace("|", "\\|")))
open(os.path.join(ROOT, "seeded", "README.md"), "w").write("\n".join(out) + "\n")
print("seeded/README.md: %d seeds" % len(rows))
