//! C04 / C07 fuzz target: an arbitrary peer byte stream, cut into arbitrary reads, fed to a real
//! `ZmtpEngine`. Oracles inside the target:
//!  * no panic, no abort (libFuzzer + debug assertions + overflow checks);
//!  * nothing is delivered before the handshake completed, nothing after the engine reported an
//!    error;
//!  * with NULL security, once the handshake is complete the delivered messages are exactly what
//!    the independent reference decoder reads from the remaining bytes (up to the first frame it
//!    rejects / a command frame / the MAXMSGSIZE limit), however the stream was cut;
//!  * the same bytes delivered in one piece give the same deliveries (metamorphic).
#![no_main]
mod common;
use bytes::Bytes;
use common::*;
use libfuzzer_sys::fuzz_target;
use rzmq::protocol::zmtp::actions::{AppAction, NetAction};
use rzmq::socket::options as opt;

#[derive(Debug, PartialEq, Eq, Clone)]
enum Ev {
  Complete,
  Deliver(Vec<(bool, Vec<u8>)>),
  Error,
}

fn drive(is_server: bool, ty: &str, maxmsg: Option<i64>, chunks: &[usize], stream: &[u8]) -> Vec<Ev> {
  let mut opts: Vec<(i32, Vec<u8>)> = Vec::new();
  if let Some(m) = maxmsg {
    opts.push((opt::MAXMSGSIZE, m.to_ne_bytes().to_vec()));
  }
  let mut eng = match rzmq::verif::engine(is_server, ty, &opts) {
    Ok(e) => e,
    Err(_) => return vec![],
  };
  let mut evs = Vec::new();
  let mut closed = false;
  let mut absorb = |out: rzmq::protocol::zmtp::actions::EngineOutput, evs: &mut Vec<Ev>, closed: &mut bool| {
    for a in out.net_actions {
      if let NetAction::ScheduleClose(_) = a {
        *closed = true;
      }
    }
    for a in out.app_actions {
      match a {
        AppAction::HandshakeComplete { .. } => evs.push(Ev::Complete),
        AppAction::DeliverMessage(b) => evs.push(Ev::Deliver(b.iter().map(|m| (m.is_more(), m.data().unwrap_or(&[]).to_vec())).collect())),
        AppAction::PeerError(_) => {
          evs.push(Ev::Error);
          *closed = true;
        }
      }
    }
  };
  absorb(eng.start(), &mut evs, &mut closed);
  let mut off = 0usize;
  let mut ci = 0usize;
  while off < stream.len() && !closed {
    let n = chunks.get(ci % chunks.len().max(1)).copied().unwrap_or(stream.len()).max(1).min(stream.len() - off);
    ci += 1;
    let out = eng.on_network_bytes(Bytes::copy_from_slice(&stream[off..off + n]));
    off += n;
    absorb(out, &mut evs, &mut closed);
  }
  evs
}

fuzz_target!(|data: &[u8]| {
  if data.len() < 8 {
    return;
  }
  let is_server = data[0] & 1 != 0;
  let ty = TYPES[(data[1] % 8) as usize];
  let mode = data[2] % 3;
  let maxmsg = match data[3] % 4 {
    0 => None,
    1 => Some(64),
    2 => Some(300),
    _ => Some(70_000),
  };
  let nchunks = (data[4] % 6) as usize + 1;
  if data.len() < 5 + nchunks {
    return;
  }
  let chunks: Vec<usize> = data[5..5 + nchunks].iter().map(|b| (*b as usize % 97) + 1).collect();
  let tail = &data[5 + nchunks..];
  let mut stream = Vec::new();
  if mode >= 1 {
    stream.extend(greeting_v3("NULL", !is_server));
  }
  if mode == 2 {
    stream.extend(ready(peer_of(ty)));
  }
  let prefix = stream.len();
  stream.extend_from_slice(tail);

  let evs = drive(is_server, ty, maxmsg, &chunks, &stream);
  // ordering invariants
  let mut complete = false;
  let mut errored = false;
  for e in &evs {
    match e {
      Ev::Complete => {
        assert!(!complete, "handshake completed twice");
        complete = true;
      }
      Ev::Deliver(_) => {
        assert!(complete, "a message was delivered before the handshake completed");
        assert!(!errored, "a message was delivered after the engine reported an error");
      }
      Ev::Error => errored = true,
    }
  }
  // metamorphic: one read
  let whole = drive(is_server, ty, maxmsg, &[usize::MAX], &stream);
  let d = |v: &Vec<Ev>| v.iter().filter(|e| matches!(e, Ev::Deliver(_))).cloned().collect::<Vec<_>>();
  assert_eq!(d(&evs), d(&whole), "delivered messages depend on how the stream was cut");
  // reference agreement in the data phase (only when our own valid prefix completed the handshake)
  if mode == 2 && complete {
    let mut want: Vec<Vec<(bool, Vec<u8>)>> = Vec::new();
    let mut cur: Vec<(bool, Vec<u8>)> = Vec::new();
    let mut rest = &stream[prefix..];
    let mut clean_end = true;
    loop {
      match decode_frame(rest) {
        RefDecode::Frame(f, used) => {
          if f.command {
            // commands in the data phase (PING, SUBSCRIBE, ...) are not messages: stop comparing
            clean_end = false;
            break;
          }
          if let Some(m) = maxmsg {
            if f.body.len() as i64 > m {
              clean_end = false;
              break;
            }
          }
          rest = &rest[used..];
          let more = f.more;
          cur.push((more, f.body));
          if cur.len() > 255 {
            clean_end = false;
            break;
          }
          if !more {
            want.push(std::mem::take(&mut cur));
          }
        }
        _ => break,
      }
    }
    let got: Vec<Vec<(bool, Vec<u8>)>> = evs.iter().filter_map(|e| if let Ev::Deliver(m) = e { Some(m.clone()) } else { None }).collect();
    // everything the reference accepts before the first questionable frame must come out, in order
    assert!(got.len() >= want.len() || !clean_end || errored, "the engine delivered {} messages, the reference reads {}", got.len(), want.len());
    for (i, w) in want.iter().enumerate() {
      if let Some(g) = got.get(i) {
        assert_eq!(g, w, "message {} differs from the reference decoding", i);
      }
    }
    if clean_end && !errored {
      assert_eq!(got.len(), want.len(), "the engine delivered more messages than the bytes contain");
    }
  }
});
