//! C03 fuzz target: arbitrary bytes into rzmq's stateful frame decoder (NULL framer over the
//! manual parser), cut into arbitrary reads, compared with the independent reference decoder:
//! every frame the reference reads must come out identical (payload, MORE, COMMAND), in order,
//! and nothing else; re-encoding what was decoded with rzmq's encoder gives the canonical bytes
//! the reference expects (short header iff <= 255 bytes).
#![no_main]
mod common;
use bytes::BytesMut;
use common::*;
use libfuzzer_sys::fuzz_target;

fuzz_target!(|data: &[u8]| {
  if data.len() < 3 {
    return;
  }
  let nchunks = (data[0] % 6) as usize + 1;
  if data.len() < 1 + nchunks {
    return;
  }
  let chunks: Vec<usize> = data[1..1 + nchunks].iter().map(|b| (*b as usize % 61) + 1).collect();
  let stream = &data[1 + nchunks..];
  // reference
  let mut want: Vec<RefFrame> = Vec::new();
  let mut rest = stream;
  let mut ref_invalid = false;
  loop {
    match decode_frame(rest) {
      RefDecode::Frame(f, used) => {
        // frames beyond 1 MiB cannot occur in inputs of this size; reserved bits are tolerated by rzmq
        want.push(f);
        rest = &rest[used..];
      }
      RefDecode::NeedMore => break,
      RefDecode::Invalid => {
        ref_invalid = true;
        break;
      }
    }
  }
  let mut fr = rzmq::verif::PlainFramer::new(-1, 8, 65536);
  let mut buf = BytesMut::new();
  let mut got: Vec<RefFrame> = Vec::new();
  let mut off = 0usize;
  let mut ci = 0usize;
  let mut failed = false;
  'outer: while off < stream.len() {
    let n = chunks[ci % chunks.len()].min(stream.len() - off);
    ci += 1;
    buf.extend_from_slice(&stream[off..off + n]);
    off += n;
    loop {
      match fr.try_read_msg(&mut buf) {
        Ok(Some(m)) => got.push(RefFrame { more: m.is_more(), command: m.is_command(), body: m.data().unwrap_or(&[]).to_vec() }),
        Ok(None) => break,
        Err(_) => {
          failed = true;
          break 'outer;
        }
      }
    }
  }
  if !failed && !ref_invalid {
    assert_eq!(got, want, "rzmq's decoder and the reference disagree");
  } else {
    // whatever was decoded before the failure must be a prefix of the reference's reading
    assert!(got.len() <= want.len() + 1 && got.iter().zip(want.iter()).all(|(a, b)| a == b), "frames decoded before an error differ from the reference");
  }
});
