//! Independent ZMTP frame reference shared by the fuzz targets (a copy of the harness's
//! `wire.rs` core, kept dependency-free).

#[derive(Clone, Debug, PartialEq, Eq)]
pub struct RefFrame {
  pub more: bool,
  pub command: bool,
  pub body: Vec<u8>,
}

pub enum RefDecode {
  Frame(RefFrame, usize),
  NeedMore,
  Invalid,
}

/// ZMTP 3.x frame: flags (bit0 MORE, bit1 LONG, bit2 COMMAND, others reserved), length, body.
pub fn decode_frame(src: &[u8]) -> RefDecode {
  if src.is_empty() {
    return RefDecode::NeedMore;
  }
  let flags = src[0];
  let long = flags & 0x02 != 0;
  let (len, hdr) = if long {
    if src.len() < 9 {
      return RefDecode::NeedMore;
    }
    let mut b = [0u8; 8];
    b.copy_from_slice(&src[1..9]);
    (u64::from_be_bytes(b), 9usize)
  } else {
    if src.len() < 2 {
      return RefDecode::NeedMore;
    }
    (src[1] as u64, 2usize)
  };
  if len > (1 << 40) {
    return RefDecode::Invalid;
  }
  let len = len as usize;
  if src.len() < hdr + len {
    return RefDecode::NeedMore;
  }
  RefDecode::Frame(RefFrame { more: flags & 0x01 != 0, command: flags & 0x04 != 0, body: src[hdr..hdr + len].to_vec() }, hdr + len)
}

pub fn greeting_v3(mechanism: &str, as_server: bool) -> Vec<u8> {
  let mut g = vec![0xFF, 0, 0, 0, 0, 0, 0, 0, 1, 0x7F, 3, 1];
  let mut m = [0u8; 20];
  m[..mechanism.len()].copy_from_slice(mechanism.as_bytes());
  g.extend_from_slice(&m);
  g.push(as_server as u8);
  g.extend_from_slice(&[0u8; 31]);
  g
}

pub fn ready(socket_type: &str) -> Vec<u8> {
  let mut body = vec![5u8];
  body.extend_from_slice(b"READY");
  body.push(11);
  body.extend_from_slice(b"Socket-Type");
  body.extend_from_slice(&(socket_type.len() as u32).to_be_bytes());
  body.extend_from_slice(socket_type.as_bytes());
  let mut out = vec![0x04, body.len() as u8];
  out.extend(body);
  out
}

pub const TYPES: [&str; 8] = ["PUB", "SUB", "REQ", "REP", "DEALER", "ROUTER", "PUSH", "PULL"];

pub fn peer_of(t: &str) -> &'static str {
  match t {
    "PUB" => "SUB",
    "SUB" => "PUB",
    "REQ" => "REP",
    "REP" => "REQ",
    "DEALER" => "ROUTER",
    "ROUTER" => "DEALER",
    "PUSH" => "PULL",
    _ => "PUSH",
  }
}
