//! Harness-side ZMTP reference, written from RFC 15 (ZMTP/2.0), RFC 23 (ZMTP/3.0), RFC 37 (3.1)
//! and RFC 24 (PLAIN). Shares no code with rzmq; it is the independent side of every wire oracle.

use serde::{Deserialize, Serialize};

pub const FLAG_MORE: u8 = 0x01;
pub const FLAG_LONG: u8 = 0x02;
pub const FLAG_COMMAND: u8 = 0x04;

#[derive(Clone, Debug, PartialEq, Eq, Hash, Serialize, Deserialize)]
pub struct RefFrame {
  pub more: bool,
  pub command: bool,
  pub body: Vec<u8>,
}

impl RefFrame {
  pub fn data(body: Vec<u8>, more: bool) -> Self {
    Self { more, command: false, body }
  }
  pub fn cmd(body: Vec<u8>) -> Self {
    Self { more: false, command: true, body }
  }
}

/// Reference encoder: short header iff len <= 255, long header = flags|LONG + u64 big-endian.
pub fn encode_frame(f: &RefFrame, out: &mut Vec<u8>) {
  let mut flags = 0u8;
  if f.more {
    flags |= FLAG_MORE;
  }
  if f.command {
    flags |= FLAG_COMMAND;
  }
  let n = f.body.len();
  if n <= 255 {
    out.push(flags);
    out.push(n as u8);
  } else {
    out.push(flags | FLAG_LONG);
    out.extend_from_slice(&(n as u64).to_be_bytes());
  }
  out.extend_from_slice(&f.body);
}

pub fn encode_frames(fs: &[RefFrame]) -> Vec<u8> {
  let mut out = Vec::new();
  for f in fs {
    encode_frame(f, &mut out);
  }
  out
}

/// Wire size of one frame.
pub fn frame_wire_len(body_len: usize) -> usize {
  if body_len <= 255 {
    2 + body_len
  } else {
    9 + body_len
  }
}

#[derive(Debug, PartialEq, Eq)]
pub enum RefDecode {
  /// A complete frame and the number of bytes it occupied.
  Frame(RefFrame, usize),
  /// More bytes needed.
  Need,
  /// Reserved flag bits set, or length does not fit.
  Bad(&'static str),
}

/// Reference decoder for one frame at the start of `src`.
pub fn decode_frame(src: &[u8]) -> RefDecode {
  if src.is_empty() {
    return RefDecode::Need;
  }
  let flags = src[0];
  let long = flags & FLAG_LONG != 0;
  let hdr = if long { 9 } else { 2 };
  if src.len() < hdr {
    return RefDecode::Need;
  }
  let n: u64 = if long { u64::from_be_bytes(src[1..9].try_into().unwrap()) } else { src[1] as u64 };
  if n > (usize::MAX as u64) / 2 {
    return RefDecode::Bad("length too large");
  }
  let n = n as usize;
  if src.len() - hdr < n {
    return RefDecode::Need;
  }
  RefDecode::Frame(
    RefFrame { more: flags & FLAG_MORE != 0, command: flags & FLAG_COMMAND != 0, body: src[hdr..hdr + n].to_vec() },
    hdr + n,
  )
}

/// Decodes as many whole frames as `src` holds; returns them and the number of bytes consumed.
pub fn decode_all(src: &[u8]) -> (Vec<RefFrame>, usize) {
  let mut out = Vec::new();
  let mut off = 0;
  loop {
    match decode_frame(&src[off..]) {
      RefDecode::Frame(f, n) => {
        out.push(f);
        off += n;
      }
      _ => break,
    }
  }
  (out, off)
}

// --- Greetings ----------------------------------------------------------------------------------

pub fn signature() -> Vec<u8> {
  let mut v = vec![0xFF];
  v.extend_from_slice(&[0u8; 8]);
  v.push(0x7F);
  v
}

/// ZMTP/3.x greeting: signature, major, minor, mechanism[20], as-server, 31 zero bytes.
pub fn greeting_v3(minor: u8, mechanism: &str, as_server: bool) -> Vec<u8> {
  let mut v = signature();
  v.push(3);
  v.push(minor);
  let mut mech = [0u8; 20];
  mech[..mechanism.len().min(20)].copy_from_slice(&mechanism.as_bytes()[..mechanism.len().min(20)]);
  v.extend_from_slice(&mech);
  v.push(as_server as u8);
  v.extend_from_slice(&[0u8; 31]);
  assert_eq!(v.len(), 64);
  v
}

/// ZMTP/2.0 socket type codes (RFC 15).
pub fn v2_socket_code(name: &str) -> Option<u8> {
  Some(match name {
    "PAIR" => 0,
    "PUB" => 1,
    "SUB" => 2,
    "REQ" => 3,
    "REP" => 4,
    "DEALER" => 5,
    "ROUTER" => 6,
    "PULL" => 7,
    "PUSH" => 8,
    "XPUB" => 9,
    "XSUB" => 10,
    _ => return None,
  })
}

/// ZMTP/2.0 greeting: signature (FF, 8-byte length, 7F), revision 1, socket type; then one
/// identity frame (final-short frame with the identity as body).
pub fn greeting_v2(socket_type: &str) -> Vec<u8> {
  let mut v = vec![0xFF];
  v.extend_from_slice(&[0, 0, 0, 0, 0, 0, 0, 1]);
  v.push(0x7F);
  v.push(1);
  v.push(v2_socket_code(socket_type).expect("v2 socket type"));
  v
}

pub fn v2_identity_frame(identity: &[u8]) -> Vec<u8> {
  let mut out = Vec::new();
  encode_frame(&RefFrame::data(identity.to_vec(), false), &mut out);
  out
}

// --- Commands -----------------------------------------------------------------------------------

pub fn command_body(name: &str, data: &[u8]) -> Vec<u8> {
  let mut b = vec![name.len() as u8];
  b.extend_from_slice(name.as_bytes());
  b.extend_from_slice(data);
  b
}

pub fn metadata(props: &[(&str, &[u8])]) -> Vec<u8> {
  let mut b = Vec::new();
  for (k, v) in props {
    b.push(k.len() as u8);
    b.extend_from_slice(k.as_bytes());
    b.extend_from_slice(&(v.len() as u32).to_be_bytes());
    b.extend_from_slice(v);
  }
  b
}

pub fn ready(socket_type: &str, identity: Option<&[u8]>) -> RefFrame {
  let mut props: Vec<(&str, &[u8])> = vec![("Socket-Type", socket_type.as_bytes())];
  if let Some(id) = identity {
    props.push(("Identity", id));
  }
  RefFrame::cmd(command_body("READY", &metadata(&props)))
}

pub fn plain_hello(user: &[u8], pass: &[u8]) -> RefFrame {
  let mut d = vec![user.len() as u8];
  d.extend_from_slice(user);
  d.push(pass.len() as u8);
  d.extend_from_slice(pass);
  RefFrame::cmd(command_body("HELLO", &d))
}

pub fn plain_welcome() -> RefFrame {
  RefFrame::cmd(command_body("WELCOME", &[]))
}

pub fn plain_initiate(socket_type: &str, identity: Option<&[u8]>) -> RefFrame {
  let mut props: Vec<(&str, &[u8])> = vec![("Socket-Type", socket_type.as_bytes())];
  if let Some(id) = identity {
    props.push(("Identity", id));
  }
  RefFrame::cmd(command_body("INITIATE", &metadata(&props)))
}

pub fn ping(ttl: u16, ctx: &[u8]) -> RefFrame {
  let mut d = ttl.to_be_bytes().to_vec();
  d.extend_from_slice(ctx);
  RefFrame::cmd(command_body("PING", &d))
}

pub fn pong(ctx: &[u8]) -> RefFrame {
  RefFrame::cmd(command_body("PONG", ctx))
}

pub fn error_cmd(reason: &str) -> RefFrame {
  let mut d = vec![reason.len() as u8];
  d.extend_from_slice(reason.as_bytes());
  RefFrame::cmd(command_body("ERROR", &d))
}

/// Parses a command body into (name, data).
pub fn parse_command(body: &[u8]) -> Option<(String, Vec<u8>)> {
  let n = *body.first()? as usize;
  if body.len() < 1 + n {
    return None;
  }
  Some((String::from_utf8_lossy(&body[1..1 + n]).into_owned(), body[1 + n..].to_vec()))
}

// --- Socket-type pairing (RFC 28/29/30/31 and libzmq session_base) -----------------------------

pub const SOCKET_TYPES: [&str; 8] = ["PUB", "SUB", "REQ", "REP", "DEALER", "ROUTER", "PUSH", "PULL"];
pub const WIRE_TYPES: [&str; 11] = ["PAIR", "PUB", "SUB", "REQ", "REP", "DEALER", "ROUTER", "PULL", "PUSH", "XPUB", "XSUB"];

pub fn compatible(a: &str, b: &str) -> bool {
  let one = |x: &str, y: &str| -> bool {
    matches!(
      (x, y),
      ("PAIR", "PAIR")
        | ("PUB", "SUB")
        | ("PUB", "XSUB")
        | ("XPUB", "SUB")
        | ("XPUB", "XSUB")
        | ("REQ", "REP")
        | ("REQ", "ROUTER")
        | ("REP", "DEALER")
        | ("DEALER", "DEALER")
        | ("DEALER", "ROUTER")
        | ("ROUTER", "ROUTER")
        | ("PUSH", "PULL")
    )
  };
  one(a, b) || one(b, a)
}
