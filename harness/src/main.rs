#![allow(dead_code)]
//! rzmq-verif: property-based checks for the properties listed in /verif/properties.jsonl.
//!
//! usage: rzmq-verif <ID> [--tier quick|thorough] [--replay <file>]
//! env:   VERIF_SEED (u64, default 1), VERIF_TIER (quick|thorough)
//! exit:  0 held on everything explored · 1 VIOLATION · 2 inconclusive

mod dbg;
mod engine;
mod fuzzstage;
mod keys;
mod pair;
mod props;
mod sched;
mod stack;
mod wire;

use engine::{Run, Tier};

fn main() {
  let args: Vec<String> = std::env::args().skip(1).collect();
  if args.is_empty() {
    eprintln!("usage: rzmq-verif <ID> [--tier quick|thorough] [--replay <file>]");
    std::process::exit(2);
  }
  if args[0] == "dbg-fibre" {
    dbg::fibre_close_semantics();
    dbg::fibre_mpsc_drop_semantics();
    return;
  }
  let id = args[0].to_uppercase();
  let mut tier = match std::env::var("VERIF_TIER").ok().as_deref() {
    Some("thorough") => Tier::Thorough,
    _ => Tier::Quick,
  };
  let mut replay: Option<String> = None;
  let mut i = 1;
  while i < args.len() {
    match args[i].as_str() {
      "--tier" => {
        i += 1;
        tier = match args.get(i).map(|s| s.as_str()) {
          Some("thorough") => Tier::Thorough,
          Some("quick") => Tier::Quick,
          other => {
            eprintln!("bad tier {:?}", other);
            std::process::exit(2);
          }
        };
      }
      "--replay" => {
        i += 1;
        replay = args.get(i).cloned();
      }
      other => {
        eprintln!("unknown argument {}", other);
        std::process::exit(2);
      }
    }
    i += 1;
  }
  let seed: u64 = std::env::var("VERIF_SEED").ok().and_then(|s| s.trim().parse::<i128>().ok()).map(|v| v as u64).unwrap_or(1);
  if let Ok(f) = std::env::var("VERIF_TRACE") {
    let _ = tracing_subscriber::fmt().with_env_filter(tracing_subscriber::EnvFilter::new(f)).with_writer(std::io::stderr).try_init();
  }
  #[cfg(feature = "uring")]
  if args[0] == "c20-child" {
    std::process::exit(props::c20::child::main());
  }
  engine::install_panic_hook();
  let mut run = Run::new(&id, tier, seed);
  if let Some(path) = replay {
    let (sub, case) = engine::load_replay(&path);
    run.replay = Some((sub, case, path));
    run.strict = true;
  }
  if !props::dispatch(&mut run) {
    eprintln!("no check for property {}", id);
    std::process::exit(2);
  }
  let code = run.finish();
  std::process::exit(code);
}
