//! Optional coverage-guided stage (libFuzzer via cargo-fuzz) for the byte-level properties.
//! Runs in the thorough tier only, a fixed number of executions from a fresh corpus with the
//! harness seed; the semantic oracle lives inside the fuzz target (harness/fuzz/fuzz_targets).
//! If the nightly toolchain or the build is not available the stage is skipped and says so in
//! the evidence; it never turns a verdict into "inconclusive".

use crate::engine::{verif_root, Run, Violation};
use serde_json::json;
use std::process::Command;

fn fuzz_bin(target: &str) -> String {
  format!("{}/target/x86_64-unknown-linux-gnu/release/{}", verif_root(), target)
}

fn build(target: &str) -> Result<(), String> {
  let out = Command::new("cargo")
    .args(["+nightly", "fuzz", "build", target])
    .current_dir(format!("{}/harness", verif_root()))
    .env("RUSTFLAGS", "--cfg rzmq_verif -Aunexpected_cfgs")
    .env("CARGO_NET_OFFLINE", "true")
    .output()
    .map_err(|e| format!("cannot start cargo: {}", e))?;
  if !out.status.success() {
    let err = String::from_utf8_lossy(&out.stderr);
    let tail: Vec<&str> = err.lines().rev().take(6).collect();
    return Err(format!("cargo +nightly fuzz build {} failed: {}", target, tail.into_iter().rev().collect::<Vec<_>>().join(" | ")));
  }
  Ok(())
}

fn hex(b: &[u8]) -> String {
  b.iter().map(|x| format!("{:02x}", x)).collect()
}

fn unhex(s: &str) -> Vec<u8> {
  (0..s.len() / 2).filter_map(|i| u8::from_str_radix(&s[2 * i..2 * i + 2], 16).ok()).collect()
}

/// Runs `target` for `runs` executions (or replays one saved input).
pub fn run(run: &Run, target: &str, runs: u64) {
  let sub = format!("fuzz_{}", target);
  let scratch = format!("{}/target/scratch/fuzz-{}-{}", verif_root(), target, std::process::id());
  let _ = std::fs::create_dir_all(&scratch);
  if let Some(case) = run.replay_case(&sub) {
    if let Err(e) = build(target) {
      run.inconclusive(e);
      return;
    }
    let input = unhex(case["input_hex"].as_str().unwrap_or(""));
    let f = format!("{}/replay-input", scratch);
    let _ = std::fs::write(&f, &input);
    let out = Command::new(fuzz_bin(target)).arg(&f).output();
    if let Ok(o) = out {
      if !o.status.success() {
        let err = String::from_utf8_lossy(&o.stderr);
        let line = err.lines().find(|l| l.contains("panicked at") || l.contains("ERROR:")).unwrap_or("the fuzz target failed on the saved input").to_string();
        let next = err.lines().skip_while(|l| !l.contains("panicked at")).nth(1).unwrap_or("").to_string();
        run.report(&sub, Violation::new("fuzz_target_failed", format!("{} {}", line, next)).with("target", target), case);
      }
    }
    let _ = std::fs::remove_dir_all(&scratch);
    return;
  }
  if run.is_replay() {
    return;
  }
  if let Err(e) = build(target) {
    run.set_extra(&format!("{}_stage", sub), json!({"skipped": e}));
    return;
  }
  let corpus = format!("{}/corpus", scratch);
  let arts = format!("{}/artifacts/", scratch);
  let _ = std::fs::create_dir_all(&corpus);
  let _ = std::fs::create_dir_all(&arts);
  let out = Command::new(fuzz_bin(target))
    .args([
      format!("-runs={}", runs),
      format!("-seed={}", (run.seed % 4_000_000_000).max(1)),
      "-max_len=1024".to_string(),
      "-len_control=0".to_string(),
      "-timeout=20".to_string(),
      format!("-dict={}/harness/fuzz/zmtp.dict", verif_root()),
      format!("-artifact_prefix={}", arts),
      corpus.clone(),
    ])
    .output();
  let o = match out {
    Ok(o) => o,
    Err(e) => {
      run.set_extra(&format!("{}_stage", sub), json!({"skipped": format!("cannot start the fuzz binary: {}", e)}));
      return;
    }
  };
  let err = String::from_utf8_lossy(&o.stderr).to_string();
  let done = err.lines().rev().find(|l| l.contains("DONE") || l.contains("pulse") || l.contains("cov:")).unwrap_or("").to_string();
  let corpus_files = std::fs::read_dir(&corpus).map(|d| d.count()).unwrap_or(0);
  run.set_extra(&format!("{}_stage", sub), json!({"executions_requested": runs, "last_status_line": done.trim(), "corpus_entries": corpus_files, "exit_ok": o.status.success()}));
  run.add_subspace(&format!("libFuzzer target {} ({} executions, fresh corpus, dictionary)", target, runs), runs, false);
  if !o.status.success() {
    // a crash, a failed assertion inside the target, or a timeout of one input
    let crash = std::fs::read_dir(&arts).ok().and_then(|d| d.filter_map(|e| e.ok()).map(|e| e.path()).next());
    let is_timeout = crash.as_ref().map(|p| p.file_name().map(|n| n.to_string_lossy().starts_with("timeout-")).unwrap_or(false)).unwrap_or(false);
    let line = err.lines().find(|l| l.contains("panicked at")).unwrap_or("the fuzz target aborted").to_string();
    let next = err.lines().skip_while(|l| !l.contains("panicked at")).nth(1).unwrap_or("").to_string();
    match crash {
      Some(p) if !is_timeout => {
        let input = std::fs::read(&p).unwrap_or_default();
        run.report(&sub, Violation::new("fuzz_target_failed", format!("{} {}", line, next)).with("target", target), json!({"target": target, "input_hex": hex(&input)}));
      }
      _ => run.note_inconclusive_case(&sub, format!("fuzz stage ended abnormally without a crashing input (timeout or OOM): {}", done)),
    }
  }
  let _ = std::fs::remove_dir_all(&scratch);
}
