//! Scratch experiments (not part of any check).
pub fn fibre_close_semantics() {
  let rt = tokio::runtime::Builder::new_current_thread().enable_all().build().unwrap();
  rt.block_on(async {
    for scenario in 0..4 {
      let (tx, rx) = fibre::mpmc::bounded_async::<u32>(1024);
      let tx1 = tx.clone();
      let tx2 = tx.clone();
      let h = tokio::spawn(async move {
        let mut n = 0;
        loop {
          match rx.recv().await {
            Ok(_) => n += 1,
            Err(_) => return n,
          }
        }
      });
      for i in 0..200u32 {
        match scenario {
          0 | 1 => { let _ = tx1.try_send(i); }
          _ => { let _ = tx1.send(i).await; }
        }
        if i % 3 == 0 { tokio::task::yield_now().await; }
      }
      tokio::time::sleep(std::time::Duration::from_millis(20)).await;
      let _ = tx.close();
      let _ = tx.close();
      tokio::time::sleep(std::time::Duration::from_millis(20)).await;
      if scenario % 2 == 0 {
        drop(tx1);
        drop(tx2);
      } else {
        tokio::spawn(async move { drop(tx1); }).await.unwrap();
        tokio::spawn(async move { drop(tx2); }).await.unwrap();
      }
      let r = tokio::time::timeout(std::time::Duration::from_millis(500), h).await;
      println!("scenario {}: receiver finished = {:?}", scenario, r.map(|x| x.unwrap()));
      std::mem::forget(tx);
    }
  });
}

struct Flag(std::sync::Arc<std::sync::atomic::AtomicBool>);
impl Drop for Flag {
  fn drop(&mut self) {
    self.0.store(true, std::sync::atomic::Ordering::SeqCst);
  }
}

pub fn fibre_mpsc_drop_semantics() {
  let rt = tokio::runtime::Builder::new_current_thread().enable_all().build().unwrap();
  rt.block_on(async {
    let dropped = std::sync::Arc::new(std::sync::atomic::AtomicBool::new(false));
    let (tx, rx) = fibre::mpsc::bounded_async::<Flag>(8);
    tx.send(Flag(dropped.clone())).await.ok();
    drop(rx);
    println!("mpsc: receiver dropped, sender alive: buffered item dropped = {}", dropped.load(std::sync::atomic::Ordering::SeqCst));
    let r = tx.send(Flag(dropped.clone())).await;
    println!("mpsc: send after receiver drop is_err = {}", r.is_err());
    drop(tx);
    println!("mpsc: after last sender dropped: item dropped = {}", dropped.load(std::sync::atomic::Ordering::SeqCst));
  });
}
