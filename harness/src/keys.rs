//! Deterministic key material for CURVE and Noise_XX cases (derived from a small seed so that
//! cases serialize compactly and replay exactly).

use crate::engine::fill;

pub fn secret_from_seed(seed: u64) -> [u8; 32] {
  let v = fill(32, seed ^ 0xC0FFEE_u64);
  let mut k = [0u8; 32];
  k.copy_from_slice(&v);
  k
}

/// Curve25519 public key for a CURVE (crypto_box) secret key.
pub fn curve_public(sk: &[u8; 32]) -> [u8; 32] {
  use dryoc::keypair::StackKeyPair;
  use dryoc::types::ByteArray;
  let kp = StackKeyPair::from_secret_key(dryoc::keypair::SecretKey::from(*sk));
  let mut pk = [0u8; 32];
  pk.copy_from_slice(kp.public_key.as_array());
  pk
}

/// X25519 public key for a Noise static secret.
pub fn noise_public(sk: &[u8; 32]) -> [u8; 32] {
  let s = x25519_dalek::StaticSecret::from(*sk);
  *x25519_dalek::PublicKey::from(&s).as_bytes()
}
