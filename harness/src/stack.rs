//! L2 scaffolding: real rzmq sockets on harness-built tokio runtimes, raw byte-level peers,
//! unique endpoints, monitor helpers, accounting payloads.

use rzmq::socket::options as opt;
use rzmq::socket::{MonitorReceiver, SocketEvent};
use rzmq::{Context, Msg, MsgFlags, Socket, SocketType};
use serde::{Deserialize, Serialize};
use std::sync::atomic::{AtomicU64, Ordering};
use std::time::Duration;
use tokio::io::{AsyncReadExt, AsyncWriteExt};
use tokio::net::{TcpListener, TcpStream, UnixListener, UnixStream};

static COUNTER: AtomicU64 = AtomicU64::new(1);

pub fn uniq() -> u64 {
  COUNTER.fetch_add(1, Ordering::Relaxed)
}

pub fn scratch_dir() -> String {
  let d = format!("{}/target/scratch/{}", crate::engine::verif_root(), std::process::id());
  let _ = std::fs::create_dir_all(&d);
  d
}

pub fn cleanup_scratch() {
  let _ = std::fs::remove_dir_all(scratch_dir());
}

#[derive(Clone, Copy, Debug, PartialEq, Eq, Hash, Serialize, Deserialize)]
pub enum Transport {
  Tcp,
  Ipc,
  Inproc,
}

impl Transport {
  pub fn name(self) -> &'static str {
    match self {
      Transport::Tcp => "tcp",
      Transport::Ipc => "ipc",
      Transport::Inproc => "inproc",
    }
  }
  /// An endpoint string to bind to (tcp uses an ephemeral port).
  pub fn fresh_endpoint(self) -> String {
    match self {
      Transport::Tcp => "tcp://127.0.0.1:0".to_string(),
      Transport::Ipc => format!("ipc://{}/s{}.sock", scratch_dir(), uniq()),
      Transport::Inproc => format!("inproc://verif-{}-{}", std::process::id(), uniq()),
    }
  }
}

#[derive(Clone, Copy, Debug, PartialEq, Eq, Hash, Serialize, Deserialize)]
pub enum Rt {
  Current,
  Multi(u8),
}

pub fn build_rt(rt: Rt) -> tokio::runtime::Runtime {
  match rt {
    Rt::Current => tokio::runtime::Builder::new_current_thread().enable_all().build().unwrap(),
    Rt::Multi(n) => tokio::runtime::Builder::new_multi_thread().worker_threads(n.max(1) as usize).enable_all().build().unwrap(),
  }
}

pub fn stype(name: &str) -> SocketType {
  match name {
    "PUB" => SocketType::Pub,
    "SUB" => SocketType::Sub,
    "REQ" => SocketType::Req,
    "REP" => SocketType::Rep,
    "DEALER" => SocketType::Dealer,
    "ROUTER" => SocketType::Router,
    "PUSH" => SocketType::Push,
    "PULL" => SocketType::Pull,
    other => panic!("unknown socket type {}", other),
  }
}

pub fn i32opt(id: i32, v: i32) -> (i32, Vec<u8>) {
  (id, v.to_ne_bytes().to_vec())
}

pub async fn set_opts(s: &Socket, opts: &[(i32, Vec<u8>)]) -> Result<(), String> {
  for (id, v) in opts {
    s.set_option_raw(*id, v).await.map_err(|e| format!("set_option({}) failed: {}", id, e))?;
  }
  Ok(())
}

/// Creates a socket, applies options (before bind/connect, as every caller must), binds it
/// and returns the endpoint to connect to.
pub async fn bound(ctx: &Context, ty: &str, tr: Transport, opts: &[(i32, Vec<u8>)]) -> Result<(Socket, String), String> {
  let s = ctx.socket(stype(ty)).map_err(|e| e.to_string())?;
  set_opts(&s, opts).await?;
  let ep = tr.fresh_endpoint();
  s.bind(&ep).await.map_err(|e| format!("bind {} failed: {}", ep, e))?;
  let actual = if tr == Transport::Tcp {
    let v = s.get_option(opt::LAST_ENDPOINT).await.map_err(|e| e.to_string())?;
    String::from_utf8_lossy(&v).to_string()
  } else {
    ep
  };
  Ok((s, actual))
}

pub async fn connected(ctx: &Context, ty: &str, ep: &str, opts: &[(i32, Vec<u8>)]) -> Result<Socket, String> {
  let s = ctx.socket(stype(ty)).map_err(|e| e.to_string())?;
  set_opts(&s, opts).await?;
  s.connect(ep).await.map_err(|e| format!("connect {} failed: {}", ep, e))?;
  Ok(s)
}

/// Waits until the monitor yields an event matching `pred`, or the timeout passes.
pub async fn wait_event(mon: &MonitorReceiver, timeout: Duration, mut pred: impl FnMut(&SocketEvent) -> bool) -> Option<SocketEvent> {
  let deadline = tokio::time::Instant::now() + timeout;
  loop {
    let now = tokio::time::Instant::now();
    if now >= deadline {
      return None;
    }
    match tokio::time::timeout(deadline - now, mon.recv()).await {
      Ok(Ok(ev)) => {
        if pred(&ev) {
          return Some(ev);
        }
      }
      Ok(Err(_)) => return None,
      Err(_) => return None,
    }
  }
}

pub async fn term(ctx: &Context) -> bool {
  tokio::time::timeout(Duration::from_secs(20), ctx.term()).await.is_ok()
}

// --- raw peers ---------------------------------------------------------------------------------

pub enum RawStream {
  Tcp(TcpStream),
  Unix(UnixStream),
}

impl RawStream {
  pub async fn write_all(&mut self, b: &[u8]) -> std::io::Result<()> {
    match self {
      RawStream::Tcp(s) => {
        s.write_all(b).await?;
        s.flush().await
      }
      RawStream::Unix(s) => {
        s.write_all(b).await?;
        s.flush().await
      }
    }
  }
  /// Reads whatever is available within `wait`; Ok(None) = timeout, Ok(Some(0 bytes)) = EOF.
  pub async fn read_some(&mut self, wait: Duration) -> std::io::Result<Option<Vec<u8>>> {
    let mut buf = vec![0u8; 65536];
    let r = match self {
      RawStream::Tcp(s) => tokio::time::timeout(wait, s.read(&mut buf)).await,
      RawStream::Unix(s) => tokio::time::timeout(wait, s.read(&mut buf)).await,
    };
    match r {
      Err(_) => Ok(None),
      Ok(Ok(n)) => {
        buf.truncate(n);
        Ok(Some(buf))
      }
      Ok(Err(e)) => Err(e),
    }
  }
  /// Reads until at least `n` bytes have arrived in total or the deadline passes / EOF.
  pub async fn read_at_least(&mut self, n: usize, wait: Duration) -> (Vec<u8>, bool) {
    let deadline = tokio::time::Instant::now() + wait;
    let mut acc = Vec::new();
    let mut eof = false;
    while acc.len() < n {
      let now = tokio::time::Instant::now();
      if now >= deadline {
        break;
      }
      match self.read_some(deadline - now).await {
        Ok(Some(b)) if b.is_empty() => {
          eof = true;
          break;
        }
        Ok(Some(b)) => acc.extend_from_slice(&b),
        Ok(None) => break,
        Err(_) => {
          eof = true;
          break;
        }
      }
    }
    (acc, eof)
  }
  /// Waits for the peer to close (EOF or reset) within `wait`, discarding data. Returns
  /// the time it took, or None if still open at the deadline.
  pub async fn wait_closed(&mut self, wait: Duration) -> Option<Duration> {
    let start = tokio::time::Instant::now();
    let deadline = start + wait;
    loop {
      let now = tokio::time::Instant::now();
      if now >= deadline {
        return None;
      }
      match self.read_some(deadline - now).await {
        Ok(Some(b)) if b.is_empty() => return Some(start.elapsed()),
        Ok(Some(_)) => continue,
        Ok(None) => return None,
        Err(_) => return Some(start.elapsed()),
      }
    }
  }
  /// Abortive close (RST) on tcp; plain close on unix sockets.
  pub fn reset(self) {
    if let RawStream::Tcp(s) = &self {
      let _ = socket2::SockRef::from(s).set_linger(Some(Duration::ZERO));
    }
    drop(self);
  }
  pub async fn shutdown_write(&mut self) {
    match self {
      RawStream::Tcp(s) => {
        let _ = s.shutdown().await;
      }
      RawStream::Unix(s) => {
        let _ = s.shutdown().await;
      }
    }
  }
}

/// Connects a raw peer to an rzmq endpoint string ("tcp://host:port" or "ipc://path").
pub async fn raw_connect(ep: &str) -> std::io::Result<RawStream> {
  if let Some(addr) = ep.strip_prefix("tcp://") {
    let s = TcpStream::connect(addr).await?;
    let _ = s.set_nodelay(true);
    Ok(RawStream::Tcp(s))
  } else if let Some(path) = ep.strip_prefix("ipc://") {
    Ok(RawStream::Unix(UnixStream::connect(path).await?))
  } else {
    Err(std::io::Error::new(std::io::ErrorKind::InvalidInput, "raw peers speak tcp or ipc"))
  }
}

pub enum RawListener {
  Tcp(TcpListener),
  Unix(UnixListener),
}

impl RawListener {
  pub async fn bind(tr: Transport) -> std::io::Result<(RawListener, String)> {
    match tr {
      Transport::Tcp => {
        let l = TcpListener::bind("127.0.0.1:0").await?;
        let ep = format!("tcp://{}", l.local_addr()?);
        Ok((RawListener::Tcp(l), ep))
      }
      Transport::Ipc => {
        let path = format!("{}/r{}.sock", scratch_dir(), uniq());
        let l = UnixListener::bind(&path)?;
        Ok((RawListener::Unix(l), format!("ipc://{}", path)))
      }
      Transport::Inproc => Err(std::io::Error::new(std::io::ErrorKind::InvalidInput, "no raw inproc")),
    }
  }
  pub async fn accept(&self, wait: Duration) -> Option<RawStream> {
    match self {
      RawListener::Tcp(l) => match tokio::time::timeout(wait, l.accept()).await {
        Ok(Ok((s, _))) => {
          let _ = s.set_nodelay(true);
          Some(RawStream::Tcp(s))
        }
        _ => None,
      },
      RawListener::Unix(l) => match tokio::time::timeout(wait, l.accept()).await {
        Ok(Ok((s, _))) => Some(RawStream::Unix(s)),
        _ => None,
      },
    }
  }
}

// --- accounting payloads -------------------------------------------------------------------------

pub const MAGIC: u32 = 0x5A4D5156; // "ZMQV"

/// Header: magic(4) sender(2) msg_seq(4) frame_idx(2) frame_cnt(2) len(4) | fill | crc32(4)
pub const ACC_OVERHEAD: usize = 4 + 2 + 4 + 2 + 2 + 4 + 4;

#[derive(Clone, Debug, PartialEq, Eq, Serialize, Deserialize)]
pub struct AccFrame {
  pub sender: u16,
  pub msg_seq: u32,
  pub frame_idx: u16,
  pub frame_cnt: u16,
  pub len: u32,
}

/// Builds one accounting frame whose total size is max(size, ACC_OVERHEAD) bytes.
pub fn acc_frame(sender: u16, msg_seq: u32, frame_idx: u16, frame_cnt: u16, size: usize) -> Vec<u8> {
  let fill_len = size.saturating_sub(ACC_OVERHEAD);
  let mut v = Vec::with_capacity(fill_len + ACC_OVERHEAD);
  v.extend_from_slice(&MAGIC.to_be_bytes());
  v.extend_from_slice(&sender.to_be_bytes());
  v.extend_from_slice(&msg_seq.to_be_bytes());
  v.extend_from_slice(&frame_idx.to_be_bytes());
  v.extend_from_slice(&frame_cnt.to_be_bytes());
  v.extend_from_slice(&(fill_len as u32).to_be_bytes());
  v.extend_from_slice(&crate::engine::fill(fill_len, ((sender as u64) << 40) ^ ((msg_seq as u64) << 8) ^ frame_idx as u64));
  let crc = crc32fast::hash(&v);
  v.extend_from_slice(&crc.to_be_bytes());
  v
}

/// Parses and verifies an accounting frame. Err = corrupted / truncated / foreign.
pub fn parse_acc(b: &[u8]) -> Result<AccFrame, String> {
  if b.len() < ACC_OVERHEAD {
    return Err(format!("frame of {} bytes is shorter than the accounting header", b.len()));
  }
  if u32::from_be_bytes(b[0..4].try_into().unwrap()) != MAGIC {
    return Err("bad magic".into());
  }
  let sender = u16::from_be_bytes(b[4..6].try_into().unwrap());
  let msg_seq = u32::from_be_bytes(b[6..10].try_into().unwrap());
  let frame_idx = u16::from_be_bytes(b[10..12].try_into().unwrap());
  let frame_cnt = u16::from_be_bytes(b[12..14].try_into().unwrap());
  let len = u32::from_be_bytes(b[14..18].try_into().unwrap());
  if b.len() != ACC_OVERHEAD + len as usize {
    return Err(format!("length field {} does not match frame size {}", len, b.len()));
  }
  let crc = u32::from_be_bytes(b[b.len() - 4..].try_into().unwrap());
  if crc32fast::hash(&b[..b.len() - 4]) != crc {
    return Err("crc mismatch".into());
  }
  Ok(AccFrame { sender, msg_seq, frame_idx, frame_cnt, len })
}

/// Builds an accounting message as rzmq Msgs (MORE set on all but the last).
pub fn acc_message(sender: u16, msg_seq: u32, sizes: &[usize]) -> Vec<Msg> {
  let n = sizes.len();
  sizes
    .iter()
    .enumerate()
    .map(|(i, sz)| {
      let mut m = Msg::from_vec(acc_frame(sender, msg_seq, i as u16, n as u16, *sz));
      if i + 1 < n {
        m.set_flags(MsgFlags::MORE);
      }
      m
    })
    .collect()
}

pub const SENTINEL_SEQ: u32 = u32::MAX;

pub fn err_kind(e: &rzmq::ZmqError) -> &'static str {
  use rzmq::ZmqError::*;
  match e {
    Timeout => "timeout",
    ResourceLimitReached => "would_block",
    InvalidState(_) => "invalid_state",
    HostUnreachable(_) => "host_unreachable",
    ConnectionClosed => "closed",
    _ => "other",
  }
}

/// Outcome of an L2 case body: Ok, a violation, or "could not decide" (never a violation).
pub enum L2 {
  Ok,
  Violation(crate::engine::Violation),
  Inconclusive(String),
}

/// Runs an async case body on a fresh runtime under a hard ceiling (watchdog).
pub fn run_l2<F>(rt: Rt, ceiling: Duration, body: F) -> L2
where
  F: std::future::Future<Output = L2>,
{
  let runtime = build_rt(rt);
  let r = runtime.block_on(async { tokio::time::timeout(ceiling, body).await });
  runtime.shutdown_timeout(Duration::from_secs(2));
  match r {
    Ok(x) => x,
    Err(_) => L2::Inconclusive(format!("watchdog: case exceeded {:?}", ceiling)),
  }
}

/// Maps an L2 outcome into the property function's result, recording inconclusive cases.
pub fn l2_result(run: &crate::engine::Run, sub: &str, r: L2) -> Result<(), crate::engine::Violation> {
  match r {
    L2::Ok => Ok(()),
    L2::Violation(v) => Err(v),
    L2::Inconclusive(why) => {
      run.note_inconclusive_case(sub, why);
      Ok(())
    }
  }
}
