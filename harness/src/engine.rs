//! Shared runner: seeds, proptest driver, classification, evidence, known findings, replay.

use proptest::strategy::{Strategy, ValueTree};
use proptest::test_runner::{Config, RngSeed, TestCaseError, TestError, TestRunner};
use serde::{Deserialize, Serialize};
use serde_json::{json, Map, Value};
use std::collections::{BTreeMap, HashSet};
use std::hash::{Hash, Hasher};
use std::sync::atomic::{AtomicBool, Ordering};
use std::sync::{Arc, Mutex};
use std::time::Instant;

/// Default location of the verification tree; `verif_root()` honours the VERIF_ROOT variable the
/// `check` wrapper exports (so a copy of the tree elsewhere reads its own known_findings.json).
pub const VERIF_ROOT: &str = "/verif";

pub fn verif_root() -> String {
  std::env::var("VERIF_ROOT").unwrap_or_else(|_| VERIF_ROOT.to_string())
}

#[derive(Clone, Copy, PartialEq, Eq, Debug)]
pub enum Tier {
  Quick,
  Thorough,
}

impl Tier {
  pub fn name(self) -> &'static str {
    match self {
      Tier::Quick => "quick",
      Tier::Thorough => "thorough",
    }
  }
  /// Picks a case count by tier.
  pub fn pick(self, quick: u32, thorough: u32) -> u32 {
    match self {
      Tier::Quick => quick,
      Tier::Thorough => thorough,
    }
  }
}

/// A violation of a property, with the exact fields the known-findings matcher looks at.
#[derive(Clone, Debug, Serialize, Deserialize)]
pub struct Violation {
  /// Name of the sub-check (oracle) that failed.
  pub check: String,
  /// Signature fields (scalars) used to match against known_findings.json.
  pub sig: Map<String, Value>,
  /// Human-readable description of what went wrong.
  pub detail: String,
}

impl Violation {
  pub fn new(check: &str, detail: impl Into<String>) -> Self {
    Self { check: check.to_string(), sig: Map::new(), detail: detail.into() }
  }
  pub fn with(mut self, k: &str, v: impl Into<Value>) -> Self {
    self.sig.insert(k.to_string(), v.into());
    self
  }
}

#[derive(Clone, Debug, Deserialize)]
pub struct KnownFinding {
  pub property: String,
  pub key: String,
  pub status: String,
  #[serde(default)]
  pub commit: Option<String>,
  pub signature: Map<String, Value>,
  pub what: String,
}

impl KnownFinding {
  /// An entry matches iff it is `known` (a `fixed` entry suppresses nothing), the check
  /// name is equal and every other signature field admits the violation's value.
  pub fn matches(&self, property: &str, v: &Violation) -> bool {
    if self.status != "known" || self.property != property {
      return false;
    }
    for (k, want) in &self.signature {
      let got: Value = if k == "check" {
        Value::String(v.check.clone())
      } else {
        match v.sig.get(k) {
          Some(g) => g.clone(),
          None => return false,
        }
      };
      let ok = match want {
        Value::Array(alts) => alts.iter().any(|a| *a == got),
        Value::String(s) if s == "any" => true,
        Value::String(s) if s == "nonzero" => match &got {
          Value::Number(n) => n.as_f64().map(|f| f != 0.0).unwrap_or(false),
          Value::String(g) => g != "0" && !g.is_empty(),
          _ => false,
        },
        other => *other == got,
      };
      if !ok {
        return false;
      }
    }
    true
  }
}

pub fn load_known_findings() -> Vec<KnownFinding> {
  let path = format!("{}/known_findings.json", verif_root());
  match std::fs::read_to_string(&path) {
    Ok(s) => serde_json::from_str::<Vec<KnownFinding>>(&s).unwrap_or_else(|e| {
      eprintln!("cannot parse {}: {}", path, e);
      std::process::exit(2);
    }),
    Err(_) => Vec::new(),
  }
}

/// Per-case record filled in by a property function.
#[derive(Default)]
pub struct CaseRec {
  pub nontrivial: bool,
  pub labels: Vec<&'static str>,
  /// Optional extra numbers a property wants summed into evidence (e.g. engine runs).
  pub counters: Vec<(&'static str, u64)>,
}

impl CaseRec {
  pub fn label(&mut self, l: &'static str) {
    if !self.labels.contains(&l) {
      self.labels.push(l);
    }
  }
  pub fn label_if(&mut self, c: bool, l: &'static str) {
    if c {
      self.label(l);
    }
  }
  pub fn count(&mut self, k: &'static str, n: u64) {
    self.counters.push((k, n));
  }
}

#[derive(Default)]
struct Acc {
  evaluations: u64,
  nontrivial: HashSet<u64>,
  classes: BTreeMap<String, u64>,
  counters: BTreeMap<String, u64>,
  samples: Vec<Value>,
  excluded_known: BTreeMap<String, u64>,
}

pub struct SubSpace {
  pub name: String,
  pub evaluations: u64,
  pub exhaustive: bool,
}

/// One run of one property's check.
pub struct Run {
  pub id: String,
  pub tier: Tier,
  pub seed: u64,
  pub level: &'static str,
  pub rule: String,
  pub assumptions: Vec<String>,
  pub known: Vec<KnownFinding>,
  pub strict: bool,
  /// Replay mode: (sub-check name, case, path). Only the named sub-check runs, once, strictly.
  pub replay: Option<(String, Value, String)>,
  acc: Mutex<Acc>,
  subspaces: Mutex<Vec<SubSpace>>,
  violations: Mutex<Vec<(Violation, String)>>,
  known_hits: Mutex<BTreeMap<String, u64>>,
  inconclusive: Mutex<Vec<String>>,
  extra: Mutex<Map<String, Value>>,
  started: Instant,
}

pub fn hash_of<T: Hash>(t: &T) -> u64 {
  let mut h = std::collections::hash_map::DefaultHasher::new();
  t.hash(&mut h);
  h.finish()
}

pub fn hash_json(v: &Value) -> u64 {
  hash_of(&v.to_string())
}

impl Run {
  pub fn new(id: &str, tier: Tier, seed: u64) -> Self {
    let known = load_known_findings().into_iter().filter(|k| k.property == id).collect();
    Self {
      id: id.to_string(),
      tier,
      seed,
      level: "exploration",
      rule: String::new(),
      assumptions: Vec::new(),
      known,
      strict: false,
      replay: None,
      acc: Mutex::new(Acc::default()),
      subspaces: Mutex::new(Vec::new()),
      violations: Mutex::new(Vec::new()),
      known_hits: Mutex::new(BTreeMap::new()),
      inconclusive: Mutex::new(Vec::new()),
      extra: Mutex::new(Map::new()),
      started: Instant::now(),
    }
  }

  pub fn sub_seed(&self, name: &str, worker: u64) -> u64 {
    hash_of(&(self.seed, &self.id, name, worker))
  }

  pub fn set_extra(&self, k: &str, v: Value) {
    self.extra.lock().unwrap().insert(k.to_string(), v);
  }

  pub fn inconclusive(&self, why: impl Into<String>) {
    self.inconclusive.lock().unwrap().push(why.into());
  }

  /// An individual case that could not be decided (watchdog, setup failure). The run only
  /// becomes inconclusive as a whole if such cases exceed 10 % of the sub-check's evaluations.
  pub fn note_inconclusive_case(&self, sub: &str, why: String) {
    let mut e = self.extra.lock().unwrap();
    let key = format!("undecided_cases:{}", sub);
    let n = e.get(&key).and_then(|v| v.as_u64()).unwrap_or(0) + 1;
    e.insert(key, json!(n));
    let lk = format!("undecided_reasons:{}", sub);
    let mut list = e.get(&lk).and_then(|v| v.as_array().cloned()).unwrap_or_default();
    if list.len() < 5 {
      list.push(json!(why));
      e.insert(lk, Value::Array(list));
    }
  }

  pub fn undecided(&self, sub: &str) -> u64 {
    self.extra.lock().unwrap().get(&format!("undecided_cases:{}", sub)).and_then(|v| v.as_u64()).unwrap_or(0)
  }

  pub fn n_violations(&self) -> usize {
    self.violations.lock().unwrap().len()
  }

  /// Classifies a violation: `Some(key)` if it is a listed known finding.
  pub fn known_key(&self, v: &Violation) -> Option<String> {
    if self.strict {
      return None;
    }
    self.known.iter().find(|k| k.matches(&self.id, v)).map(|k| k.key.clone())
  }

  /// Records one evaluated case (outside of proptest-driven loops, e.g. enumerations).
  pub fn record_case(&self, sub: &str, case_json: impl FnOnce() -> Value, rec: &CaseRec, case_hash: u64) {
    let mut a = self.acc.lock().unwrap();
    a.evaluations += 1;
    if rec.nontrivial {
      a.nontrivial.insert(case_hash);
    }
    for l in &rec.labels {
      *a.classes.entry(format!("{}:{}", sub, l)).or_insert(0) += 1;
    }
    for (k, n) in &rec.counters {
      *a.counters.entry(format!("{}:{}", sub, k)).or_insert(0) += n;
    }
    let n = a.evaluations;
    let per_sub = a.samples.iter().filter(|s| s.get("sub").and_then(|x| x.as_str()) == Some(sub)).count();
    if per_sub < 3 || (n % 5000 == 0 && a.samples.len() < 40) {
      let cj = case_json();
      let s = cj.to_string();
      let shown = if s.len() > 1500 { json!({"truncated": &s[..1500]}) } else { cj };
      a.samples.push(json!({"sub": sub, "case": shown, "nontrivial": rec.nontrivial, "labels": rec.labels}));
    }
  }

  /// In replay mode: the case to re-execute if it belongs to `sub`.
  pub fn replay_case(&self, sub: &str) -> Option<Value> {
    match &self.replay {
      Some((s, c, _)) if s == sub => Some(c.clone()),
      _ => None,
    }
  }
  pub fn is_replay(&self) -> bool {
    self.replay.is_some()
  }

  /// Handles a violation found outside of a proptest loop (enumerations, directed cases).
  /// Returns true if it was a known finding.
  pub fn report(&self, sub: &str, v: Violation, case: Value) -> bool {
    if let Some(key) = self.known_key(&v) {
      *self.known_hits.lock().unwrap().entry(key).or_insert(0) += 1;
      return true;
    }
    let path = match &self.replay {
      Some((_, _, p)) => p.clone(),
      None => self.write_replay(sub, &v, &case),
    };
    self.violations.lock().unwrap().push((v, path));
    false
  }

  fn write_replay(&self, sub: &str, v: &Violation, case: &Value) -> String {
    // VERIF_OUT_DIR redirects replays and evidence (background campaigns run from a snapshot must
    // not overwrite the evidence that /verif itself produced)
    let dir = match std::env::var("VERIF_OUT_DIR") {
      Ok(d) => format!("{}/replays/{}", d, self.id),
      Err(_) => format!("{}/replays/{}", verif_root(), self.id),
    };
    let _ = std::fs::create_dir_all(&dir);
    let body = json!({"property": self.id, "sub": sub, "violation": v, "case": case, "seed": self.seed, "tier": self.tier.name()});
    let h = hash_json(&json!({"sub": sub, "case": case, "check": v.check}));
    let path = format!("{}/{}-{}-{:016x}.json", dir, sub, v.check, h);
    let _ = std::fs::write(&path, serde_json::to_string_pretty(&body).unwrap());
    path
  }

  pub fn add_subspace(&self, name: &str, evaluations: u64, exhaustive: bool) {
    self.subspaces.lock().unwrap().push(SubSpace { name: name.to_string(), evaluations, exhaustive });
  }

  /// Drives `prop` over `cases` generated values of `strat`, split over `workers` threads.
  /// Known findings are counted and skipped so the search continues past them; the first
  /// unknown violation per worker is shrunk by proptest and written as a replay file.
  pub fn prop<S, F>(&self, sub: &str, cases: u32, workers: u32, max_shrink_iters: u32, strat: S, prop: F)
  where
    S: Strategy + Clone + Send + Sync,
    S::Value: Serialize + serde::de::DeserializeOwned + Clone + std::fmt::Debug,
    F: Fn(&S::Value, &mut CaseRec) -> Result<(), Violation> + Send + Sync,
  {
    self.prop_boxed(sub, cases, workers, max_shrink_iters, || strat.clone(), prop)
  }

  /// Like `prop`, but the strategy is built inside each worker by `make` (for strategies that
  /// are not Send/Sync, e.g. boxed ones).
  pub fn prop_boxed<S, G, F>(&self, sub: &str, cases: u32, workers: u32, max_shrink_iters: u32, make: G, prop: F)
  where
    S: Strategy,
    G: Fn() -> S + Sync,
    S::Value: Serialize + serde::de::DeserializeOwned + Clone + std::fmt::Debug,
    F: Fn(&S::Value, &mut CaseRec) -> Result<(), Violation> + Send + Sync,
  {
    if let Some((rsub, case, path)) = &self.replay {
      if rsub != sub {
        return;
      }
      let value: S::Value = match serde_json::from_value(case.clone()) {
        Ok(v) => v,
        Err(e) => {
          self.inconclusive(format!("replay case does not deserialize for {}: {}", sub, e));
          return;
        }
      };
      let mut rec = CaseRec::default();
      let res = std::panic::catch_unwind(std::panic::AssertUnwindSafe(|| prop(&value, &mut rec)));
      let res = match res {
        Ok(r) => r,
        Err(p) => Err(Violation::new("panic", panic_text(&p)).with("where", last_panic_location())),
      };
      rec.nontrivial = true;
      self.record_case(sub, || case.clone(), &rec, 1);
      self.record_case(sub, || case.clone(), &rec, 2);
      if let Err(v) = res {
        self.violations.lock().unwrap().push((v, path.clone()));
      }
      return;
    }
    let workers = workers.max(1);
    let per = (cases + workers - 1) / workers;
    let any_failed = AtomicBool::new(false);
    std::thread::scope(|scope| {
      for w in 0..workers {
        let make = &make;
        let prop = &prop;
        let any_failed = &any_failed;
        scope.spawn(move || {
          let cfg = Config {
            cases: per,
            failure_persistence: None,
            rng_seed: RngSeed::Fixed(self.sub_seed(sub, w as u64)),
            max_shrink_iters,
            max_global_rejects: 65536,
            ..Config::default()
          };
          let strat = make();
          let mut runner = TestRunner::new(cfg);
          let failed = AtomicBool::new(false);
          let last_violation: Mutex<Option<Violation>> = Mutex::new(None);
          let result = runner.run(&strat, |value| {
            let counting = !failed.load(Ordering::Relaxed);
            if counting && any_failed.load(Ordering::Relaxed) {
              // Another worker already found something; finish quickly.
              return Ok(());
            }
            let mut rec = CaseRec::default();
            let res = std::panic::catch_unwind(std::panic::AssertUnwindSafe(|| prop(&value, &mut rec)));
            let res = match res {
              Ok(r) => r,
              Err(p) => Err(Violation::new("panic", panic_text(&p)).with("where", last_panic_location())),
            };
            if counting {
              let h = hash_of(&serde_json::to_string(&value).unwrap_or_default());
              self.record_case(sub, || serde_json::to_value(&value).unwrap_or(Value::Null), &rec, h);
            }
            match res {
              Ok(()) => Ok(()),
              Err(v) => {
                if let Some(key) = self.known_key(&v) {
                  if counting {
                    *self.known_hits.lock().unwrap().entry(key.clone()).or_insert(0) += 1;
                    *self.acc.lock().unwrap().excluded_known.entry(key).or_insert(0) += 1;
                  }
                  Ok(())
                } else {
                  failed.store(true, Ordering::Relaxed);
                  any_failed.store(true, Ordering::Relaxed);
                  let msg = format!("{}: {}", v.check, v.detail);
                  *last_violation.lock().unwrap() = Some(v);
                  Err(TestCaseError::fail(msg))
                }
              }
            }
          });
          match result {
            Ok(()) => {}
            Err(TestError::Fail(_reason, minimal)) => {
              // Re-run the minimal case to obtain its own violation object.
              let mut rec = CaseRec::default();
              let res = std::panic::catch_unwind(std::panic::AssertUnwindSafe(|| prop(&minimal, &mut rec)));
              let v = match res {
                Ok(Err(v)) if self.known_key(&v).is_none() => v,
                Err(p) => Violation::new("panic", panic_text(&p)).with("where", last_panic_location()),
                _ => last_violation.lock().unwrap().clone().unwrap_or_else(|| Violation::new("unknown", "minimal case did not reproduce")),
              };
              let case = serde_json::to_value(&minimal).unwrap_or(Value::Null);
              let path = self.write_replay(sub, &v, &case);
              self.violations.lock().unwrap().push((v, path));
            }
            Err(TestError::Abort(reason)) => {
              self.inconclusive(format!("{}: proptest aborted: {}", sub, reason));
            }
          }
        });
      }
    });
  }

  /// Writes the evidence file, prints the result lines and returns the exit code.
  pub fn finish(self) -> i32 {
    let wall = self.started.elapsed().as_secs_f64();
    let acc = self.acc.into_inner().unwrap();
    let violations = self.violations.into_inner().unwrap();
    let known_hits = self.known_hits.into_inner().unwrap();
    let inconclusive = self.inconclusive.into_inner().unwrap();
    let subspaces: Vec<Value> = self
      .subspaces
      .into_inner()
      .unwrap()
      .iter()
      .map(|s| json!({"name": s.name, "evaluations": s.evaluations, "exhaustive": s.exhaustive}))
      .collect();
    let mut coverage = Map::new();
    coverage.insert("evaluations".into(), json!(acc.evaluations));
    coverage.insert("distinct_nontrivial".into(), json!(acc.nontrivial.len()));
    coverage.insert("rule".into(), json!(self.rule));
    coverage.insert("samples".into(), Value::Array(acc.samples));
    coverage.insert("classes".into(), json!(acc.classes));
    coverage.insert("counters".into(), json!(acc.counters));
    coverage.insert("subspaces".into(), Value::Array(subspaces));
    coverage.insert("excluded_known".into(), json!(acc.excluded_known));
    coverage.insert("known_findings_reproduced".into(), json!(known_hits));
    coverage.insert("inconclusive".into(), json!(inconclusive));
    for (k, v) in self.extra.into_inner().unwrap() {
      coverage.insert(k, v);
    }
    let ev = json!({
      "property_id": self.id,
      "tier": self.tier.name(),
      "seed": self.seed,
      "level": self.level,
      "coverage": coverage,
      "assumptions": self.assumptions,
      "wall_s": wall,
      "violations": violations.len(),
    });
    let dir = match std::env::var("VERIF_OUT_DIR") {
      Ok(d) => format!("{}/evidence", d),
      Err(_) => format!("{}/evidence", verif_root()),
    };
    let _ = std::fs::create_dir_all(&dir);
    let path = format!("{}/{}.json", dir, self.id);
    if let Err(e) = std::fs::write(&path, serde_json::to_string_pretty(&ev).unwrap()) {
      eprintln!("cannot write evidence {}: {}", path, e);
    }
    for k in &self.known {
      if k.status == "known" {
        if let Some(n) = known_hits.get(&k.key) {
          println!("KNOWN-FINDING: property={} key={} hits={} {}", self.id, k.key, n, k.what);
        }
      }
    }
    for (i, (v, path)) in violations.iter().enumerate() {
      if i >= 8 {
        println!("  ... and {} more violations (see evidence / replays)", violations.len() - i);
        break;
      }
      println!("VIOLATION property={} replay={}", self.id, path);
      let d: String = v.detail.chars().take(600).collect();
      println!("  check={} sig={} detail={}", v.check, Value::Object(v.sig.clone()), d);
    }
    println!(
      "property={} tier={} seed={} evaluations={} distinct_nontrivial={} violations={} wall_s={:.1}",
      self.id,
      self.tier.name(),
      self.seed,
      acc.evaluations,
      acc.nontrivial.len(),
      violations.len(),
      wall
    );
    if !violations.is_empty() {
      return 1;
    }
    if !inconclusive.is_empty() {
      for w in &inconclusive {
        println!("INCONCLUSIVE property={} reason={}", self.id, w);
      }
      return 2;
    }
    0
  }
}

// --- panic capture ----------------------------------------------------------------------------

static PANIC_LOG: Mutex<Vec<(String, String, String)>> = Mutex::new(Vec::new());

thread_local! {
  static LAST_PANIC_LOC: std::cell::RefCell<String> = const { std::cell::RefCell::new(String::new()) };
}

pub fn install_panic_hook() {
  std::panic::set_hook(Box::new(|info| {
    let thread = std::thread::current().name().unwrap_or("?").to_string();
    let loc = info.location().map(|l| format!("{}:{}", l.file(), l.line())).unwrap_or_default();
    let msg = if let Some(s) = info.payload().downcast_ref::<&str>() {
      s.to_string()
    } else if let Some(s) = info.payload().downcast_ref::<String>() {
      s.clone()
    } else {
      "<non-string panic>".to_string()
    };
    LAST_PANIC_LOC.with(|l| *l.borrow_mut() = short_loc(&loc));
    if let Ok(mut log) = PANIC_LOG.lock() {
      if log.len() < 10_000 {
        log.push((thread, msg, loc));
      }
    }
  }));
}

/// Strips the registry / repo prefix so signatures are stable across machines.
pub fn short_loc(loc: &str) -> String {
  if let Some(i) = loc.find("/repo/") {
    return loc[i + 6..].to_string();
  }
  if let Some(i) = loc.find("/registry/src/") {
    let rest = &loc[i + 14..];
    if let Some(j) = rest.find('/') {
      return rest[j + 1..].to_string();
    }
  }
  loc.to_string()
}

pub fn last_panic_location() -> String {
  LAST_PANIC_LOC.with(|l| l.borrow().clone())
}

pub fn panic_log_len() -> usize {
  PANIC_LOG.lock().map(|l| l.len()).unwrap_or(0)
}

/// Panic entries recorded since index `from` (thread, message, short location).
pub fn panic_log_since(from: usize) -> Vec<(String, String, String)> {
  PANIC_LOG
    .lock()
    .map(|l| l.iter().skip(from).map(|(t, m, loc)| (t.clone(), m.clone(), short_loc(loc))).collect())
    .unwrap_or_default()
}

pub fn panic_text(p: &Box<dyn std::any::Any + Send>) -> String {
  if let Some(s) = p.downcast_ref::<&str>() {
    s.to_string()
  } else if let Some(s) = p.downcast_ref::<String>() {
    s.clone()
  } else {
    "<non-string panic>".to_string()
  }
}

// --- small helpers used by generators -----------------------------------------------------------

/// Deterministic filler: `len` bytes derived from `seed` (xorshift), never all-equal.
pub fn fill(len: usize, seed: u64) -> Vec<u8> {
  let mut x = seed.wrapping_mul(0x9E3779B97F4A7C15) | 1;
  let mut out = Vec::with_capacity(len);
  while out.len() < len {
    x ^= x << 13;
    x ^= x >> 7;
    x ^= x << 17;
    let b = x.to_le_bytes();
    let take = (len - out.len()).min(8);
    out.extend_from_slice(&b[..take]);
  }
  out
}

/// Monotone index mapping (shrinks towards earlier alternatives).
pub fn pick_idx(i: u16, len: usize) -> usize {
  ((i as usize) * len) >> 16
}

pub fn shared<T>(t: T) -> Arc<T> {
  Arc::new(t)
}

/// Replay file loader.
pub fn load_replay(path: &str) -> (String, Value) {
  let s = std::fs::read_to_string(path).unwrap_or_else(|e| {
    eprintln!("cannot read replay {}: {}", path, e);
    std::process::exit(2);
  });
  let v: Value = serde_json::from_str(&s).unwrap_or_else(|e| {
    eprintln!("cannot parse replay {}: {}", path, e);
    std::process::exit(2);
  });
  let sub = v.get("sub").and_then(|x| x.as_str()).unwrap_or("").to_string();
  (sub, v.get("case").cloned().unwrap_or(Value::Null))
}

#[allow(dead_code)]
pub fn new_tree<S: Strategy>(s: &S, runner: &mut TestRunner) -> S::Value {
  s.new_tree(runner).unwrap().current()
}
