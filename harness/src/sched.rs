//! Deterministic thread scheduler.
//!
//! Each logical task is an OS thread; exactly one runs at a time. A task hands control back at
//! every `rzmq::verif::point(label)` (thread-local callback) and whenever the future it is
//! driving returns `Pending`. The scheduler picks the next runnable task according to a
//! schedule: a list of *decisions* `(step, alt)` meaning "at global step number `step` do not
//! continue with the default choice but take the `alt`-th other runnable task". The default is
//! to keep running the current task while it is runnable and otherwise the lowest-numbered
//! runnable one, so an empty schedule is the sequential execution and every decision is a
//! preemption (or a choice among several waiting tasks). "No runnable task while some task is
//! unfinished" is a detected deadlock.

use std::future::Future;
use std::pin::Pin;
use std::sync::{Arc, Condvar, Mutex};
use std::task::{Context, Poll, Wake, Waker};

#[derive(Clone, Copy, PartialEq, Eq, Debug)]
enum Status {
  Runnable,
  Blocked,
  Finished,
}

struct State {
  current: Option<usize>,
  status: Vec<Status>,
  woken: Vec<bool>,
  abort: bool,
  /// label of the last point each task stopped at
  at: Vec<&'static str>,
  /// the task asked to let others run first (retry loops)
  polite: Vec<bool>,
}

pub struct Shared {
  st: Mutex<State>,
  cv: Condvar,
}

struct TaskWaker {
  shared: Arc<Shared>,
  id: usize,
}

impl Wake for TaskWaker {
  fn wake(self: Arc<Self>) {
    let mut st = self.shared.st.lock().unwrap();
    if st.status[self.id] == Status::Blocked {
      st.status[self.id] = Status::Runnable;
    } else {
      st.woken[self.id] = true;
    }
  }
}

pub struct Aborted;

/// Handle a task uses to cooperate with the scheduler.
#[derive(Clone)]
pub struct TaskCtx {
  shared: Arc<Shared>,
  pub id: usize,
}

impl TaskCtx {
  fn wait_turn(&self, mut st: std::sync::MutexGuard<'_, State>) -> Result<(), Aborted> {
    st.current = None;
    self.shared.cv.notify_all();
    while st.current != Some(self.id) && !st.abort {
      st = self.shared.cv.wait(st).unwrap();
    }
    if st.abort {
      return Err(Aborted);
    }
    Ok(())
  }

  /// Yield at a named point (stays runnable).
  pub fn point(&self, label: &'static str) -> Result<(), Aborted> {
    let mut st = self.shared.st.lock().unwrap();
    st.at[self.id] = label;
    self.wait_turn(st)
  }

  /// Yield inside a retry loop: by default another runnable task runs first.
  pub fn yield_now(&self, label: &'static str) -> Result<(), Aborted> {
    let mut st = self.shared.st.lock().unwrap();
    st.at[self.id] = label;
    st.polite[self.id] = true;
    self.wait_turn(st)
  }

  fn park_pending(&self) -> Result<(), Aborted> {
    let mut st = self.shared.st.lock().unwrap();
    if st.woken[self.id] {
      st.woken[self.id] = false;
      st.status[self.id] = Status::Runnable;
    } else {
      st.status[self.id] = Status::Blocked;
    }
    st.at[self.id] = "pending";
    self.wait_turn(st)
  }

  /// Drives a future to completion, yielding to the scheduler whenever it is Pending.
  pub fn block_on<F: Future>(&self, fut: F) -> Result<F::Output, Aborted> {
    let mut fut = Box::pin(fut);
    let waker: Waker = Arc::new(TaskWaker { shared: self.shared.clone(), id: self.id }).into();
    let mut cx = Context::from_waker(&waker);
    loop {
      match fut.as_mut().poll(&mut cx) {
        Poll::Ready(v) => return Ok(v),
        Poll::Pending => self.park_pending()?,
      }
    }
  }

  /// Polls a future until it has returned Pending `n` times, then drops it (cancellation).
  /// Returns Some(output) if it completed first.
  pub fn poll_then_drop<F: Future>(&self, fut: F, n: usize) -> Result<Option<F::Output>, Aborted> {
    let mut fut: Pin<Box<F>> = Box::pin(fut);
    let waker: Waker = Arc::new(TaskWaker { shared: self.shared.clone(), id: self.id }).into();
    let mut cx = Context::from_waker(&waker);
    let mut pendings = 0;
    loop {
      match fut.as_mut().poll(&mut cx) {
        Poll::Ready(v) => return Ok(Some(v)),
        Poll::Pending => {
          pendings += 1;
          if pendings >= n {
            drop(fut);
            // the wake-up (if any) belongs to the dropped future
            let mut st = self.shared.st.lock().unwrap();
            st.woken[self.id] = false;
            drop(st);
            self.point("cancelled")?;
            return Ok(None);
          }
          self.park_pending()?;
        }
      }
    }
  }
}

/// One scheduling decision: at global step `step`, take the `alt`-th runnable task other than
/// the default one.
pub type Decision = (u32, u8);

#[derive(Debug, Clone)]
pub struct StepInfo {
  pub step: u32,
  /// number of alternatives to the default choice at this step
  pub alts: u8,
  pub ran: usize,
  pub label: &'static str,
}

pub struct RunResult {
  pub deadlock: bool,
  pub steps: Vec<StepInfo>,
  pub panicked: Vec<(usize, String)>,
  pub hit_step_limit: bool,
  /// labels where each unfinished task is stuck (deadlock diagnosis)
  pub stuck_at: Vec<(usize, &'static str)>,
}

type TaskFn = Box<dyn FnOnce(TaskCtx) -> Result<(), Aborted> + Send>;

/// Runs `tasks` under `schedule`. `invariant` is evaluated by the scheduler thread at every
/// step (it has exclusive access then); returning Err stops the run.
pub fn run(tasks: Vec<TaskFn>, schedule: &[Decision], max_steps: u32, mut invariant: impl FnMut() -> Result<(), String>) -> (RunResult, Option<String>) {
  let n = tasks.len();
  let shared = Arc::new(Shared {
    st: Mutex::new(State { current: None, status: vec![Status::Runnable; n], woken: vec![false; n], abort: false, at: vec!["start"; n], polite: vec![false; n] }),
    cv: Condvar::new(),
  });
  let mut handles = Vec::new();
  for (id, f) in tasks.into_iter().enumerate() {
    let ctx = TaskCtx { shared: shared.clone(), id };
    let shared2 = shared.clone();
    handles.push(
      std::thread::Builder::new()
        .name(format!("sched-task-{}", id))
        .stack_size(256 * 1024)
        .spawn(move || {
          // wait for the first turn
          {
            let mut st = shared2.st.lock().unwrap();
            while st.current != Some(id) && !st.abort {
              st = shared2.cv.wait(st).unwrap();
            }
            if st.abort {
              st.status[id] = Status::Finished;
              shared2.cv.notify_all();
              return Ok(());
            }
          }
          let cb_ctx = ctx.clone();
          rzmq::verif::set_point_callback(Some(Box::new(move |label| {
            if cb_ctx.point(label).is_err() {
              // aborted: unwind out of the code under test
              std::panic::resume_unwind(Box::new(AbortUnwind));
            }
          })));
          let r = std::panic::catch_unwind(std::panic::AssertUnwindSafe(|| f(ctx)));
          rzmq::verif::set_point_callback(None);
          let mut st = shared2.st.lock().unwrap();
          st.status[id] = Status::Finished;
          if st.current == Some(id) {
            st.current = None;
          }
          shared2.cv.notify_all();
          match r {
            Ok(_) => Ok(()),
            Err(p) => {
              if p.downcast_ref::<AbortUnwind>().is_some() {
                Ok(())
              } else {
                Err(crate::engine::panic_text(&p))
              }
            }
          }
        })
        .unwrap(),
    );
  }
  let mut steps: Vec<StepInfo> = Vec::new();
  let mut last: Option<usize> = None;
  let mut deadlock = false;
  let mut hit_limit = false;
  let mut inv_err = None;
  let mut step_no: u32 = 0;
  let mut sched_i = 0;
  let mut stuck_at = Vec::new();
  let mut last_ran: Vec<u32> = vec![0; n];
  loop {
    let mut st = shared.st.lock().unwrap();
    while st.current.is_some() {
      st = shared.cv.wait(st).unwrap();
    }
    if let Err(e) = invariant() {
      inv_err = Some(e);
      st.abort = true;
      shared.cv.notify_all();
      break;
    }
    let runnable: Vec<usize> = (0..n).filter(|i| st.status[*i] == Status::Runnable).collect();
    if runnable.is_empty() {
      if st.status.iter().all(|s| *s == Status::Finished) {
        break;
      }
      deadlock = true;
      stuck_at = (0..n).filter(|i| st.status[*i] != Status::Finished).map(|i| (i, st.at[i])).collect();
      st.abort = true;
      shared.cv.notify_all();
      break;
    }
    if step_no >= max_steps {
      hit_limit = true;
      st.abort = true;
      shared.cv.notify_all();
      break;
    }
    // default: keep the current task if runnable, else the lowest id
    // default: keep the current task; after a polite yield (retry loop) the runnable task that
    // has not run for the longest time, so spinning tasks cannot starve a third one
    let default = match last {
      Some(l) if runnable.contains(&l) && !(st.polite[l] && runnable.len() > 1) => l,
      Some(l) if runnable.len() > 1 => *runnable.iter().filter(|i| **i != l).min_by_key(|i| last_ran[**i]).unwrap(),
      _ => runnable[0],
    };
    if let Some(l) = last {
      st.polite[l] = false;
    }
    let others: Vec<usize> = runnable.iter().copied().filter(|i| *i != default).collect();
    let mut pick = default;
    if sched_i < schedule.len() && schedule[sched_i].0 == step_no {
      if !others.is_empty() {
        pick = others[schedule[sched_i].1 as usize % others.len()];
      }
      sched_i += 1;
    }
    steps.push(StepInfo { step: step_no, alts: others.len() as u8, ran: pick, label: st.at[pick] });
    step_no += 1;
    last = Some(pick);
    last_ran[pick] = step_no;
    st.current = Some(pick);
    shared.cv.notify_all();
  }
  {
    // make sure nobody is left waiting
    let mut st = shared.st.lock().unwrap();
    if deadlock || hit_limit || inv_err.is_some() {
      st.abort = true;
    }
    shared.cv.notify_all();
  }
  let mut panicked = Vec::new();
  for (i, h) in handles.into_iter().enumerate() {
    match h.join() {
      Ok(Ok(())) => {}
      Ok(Err(msg)) => panicked.push((i, msg)),
      Err(_) => panicked.push((i, "task thread panicked outside catch_unwind".into())),
    }
  }
  (RunResult { deadlock, steps, panicked, hit_step_limit: hit_limit, stuck_at }, inv_err)
}

struct AbortUnwind;

/// Enumerates every schedule with at most `max_decisions` decisions (depth-first re-execution).
/// `run_one` executes the scenario under a schedule and returns its step list (or Err to stop).
/// Returns the number of schedules executed and whether the enumeration completed.
pub fn explore(max_decisions: usize, max_runs: u64, mut run_one: impl FnMut(&[Decision]) -> Result<Vec<StepInfo>, ()>) -> (u64, bool) {
  let mut runs = 0u64;
  let mut stack: Vec<Vec<Decision>> = vec![vec![]];
  while let Some(prefix) = stack.pop() {
    if runs >= max_runs {
      return (runs, false);
    }
    runs += 1;
    let steps = match run_one(&prefix) {
      Ok(s) => s,
      Err(()) => return (runs, false),
    };
    if prefix.len() >= max_decisions {
      continue;
    }
    let from = prefix.last().map(|d| d.0 + 1).unwrap_or(0);
    for s in steps.iter().filter(|s| s.step >= from && s.alts > 0) {
      for alt in 0..s.alts {
        let mut p = prefix.clone();
        p.push((s.step, alt));
        stack.push(p);
      }
    }
  }
  (runs, true)
}
