pub mod c03;
pub mod c04;
pub mod c04_l2;
pub mod c05;
pub mod c06;
pub mod c06_l2;
pub mod c07;
pub mod c07_l2;
pub mod c12;
pub mod c12_l2;
pub mod c17;
pub mod c17_l2;
pub mod c18;
pub mod c19;
pub mod c19_l2;

use crate::engine::Run;

pub fn dispatch(run: &mut Run) -> bool {
  match run.id.as_str() {
    "C03" => c03::run(run),
    "C04" => c04::run(run),
    "C05" => c05::run(run),
    "C06" => c06::run(run),
    "C07" => c07::run(run),
    "C12" => c12::run(run),
    "C17" => c17::run(run),
    "C18" => c18::run(run),
    "C19" => c19::run(run),
    _ => return false,
  }
  true
}
