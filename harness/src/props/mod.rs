pub mod c01;
pub mod c02;
pub mod c03;
pub mod c04;
pub mod c04_l2;
pub mod c05;
pub mod c06;
pub mod c06_l2;
pub mod c07;
pub mod c07_l2;
pub mod c08;
pub mod c09;
pub mod c10;
pub mod c11;
pub mod c12;
pub mod c12_l2;
pub mod c13;
pub mod c14;
pub mod c15;
pub mod c16;
pub mod c17;
pub mod c17_l2;
pub mod c18;
pub mod c19;
pub mod c19_l2;
pub mod c20;

use crate::engine::Run;

pub fn dispatch(run: &mut Run) -> bool {
  match run.id.as_str() {
    "C01" => c01::run(run),
    "C02" => c02::run(run),
    "C03" => c03::run(run),
    "C04" => c04::run(run),
    "C05" => c05::run(run),
    "C06" => c06::run(run),
    "C07" => c07::run(run),
    "C08" => c08::run(run),
    "C09" => c09::run(run),
    "C10" => c10::run(run),
    "C11" => c11::run(run),
    "C12" => c12::run(run),
    "C13" => c13::run(run),
    "C14" => c14::run(run),
    "C15" => c15::run(run),
    "C16" => c16::run(run),
    "C17" => c17::run(run),
    "C18" => c18::run(run),
    "C19" => c19::run(run),
    "C20" => {
      if cfg!(feature = "uring") {
        c20::run(run)
      } else {
        run.inconclusive("this binary was built without the harness feature `uring`; use ./check C20");
      }
    }
    _ => return false,
  }
  true
}
