pub mod c03;

use crate::engine::Run;

pub fn dispatch(run: &mut Run) -> bool {
  match run.id.as_str() {
    "C03" => c03::run(run),
    _ => return false,
  }
  true
}
