//! C14 — high-water marks bound buffering and SNDTIMEO/RCVTIMEO mean what they say.
//!
//! L2. A sender floods a peer that does not read until the first refusal; the refusal's kind and
//! latency are judged against SNDTIMEO, the number of accepted messages against the HWM bound,
//! and after the peer starts reading everything accepted must arrive, in order, exactly once,
//! and nothing that was refused. The receive side is judged on an empty queue. inproc cases run
//! on a paused tokio clock (exact virtual time), tcp/ipc on the real clock.

use crate::engine::{CaseRec, Run, Tier, Violation};
use crate::stack::{self, acc_frame, l2_result, parse_acc, Rt, Transport, L2};
use proptest::prelude::*;
use rzmq::socket::options as opt;
use rzmq::socket::SocketEvent;
use rzmq::{Msg, MsgFlags};
use serde::{Deserialize, Serialize};
use std::time::Duration;

#[derive(Clone, Debug, Serialize, Deserialize)]
pub struct Case {
  pub pair: (String, String),
  pub transport: Transport,
  pub sndhwm: u16,
  pub rcvhwm: u16,
  pub sndtimeo: i32,
  pub rcvtimeo: i32,
  pub batch: Option<(u8, u8)>,
  pub msg_kib: u16,
  pub multi_thread: bool,
  /// the sending socket binds and the peer that does not read connects (otherwise the receiver
  /// binds and the sender connects)
  #[serde(default)]
  pub sender_binds: bool,
}

fn case_strategy() -> impl Strategy<Value = Case> + Clone {
  (
    prop::sample::select(vec![("PUSH", "PULL"), ("DEALER", "DEALER"), ("DEALER", "ROUTER"), ("ROUTER", "DEALER")]),
    prop::sample::select(vec![Transport::Inproc, Transport::Inproc, Transport::Tcp, Transport::Ipc]),
    prop::sample::select(vec![1u16, 2, 10, 100]),
    prop::sample::select(vec![1u16, 2, 10, 100]),
    prop::sample::select(vec![-1i32, 0, 0, 1, 20, 100, 500]),
    prop::sample::select(vec![-1i32, 0, 1, 20, 100, 500]),
    prop::option::of((1u8..9, 1u8..9)),
    prop::sample::select(vec![16u16, 64]),
    (any::<bool>(), prop::bool::weighted(0.4)),
  )
    .prop_map(|((a, b), transport, sndhwm, rcvhwm, sndtimeo, rcvtimeo, batch, msg_kib, (multi_thread, sender_binds))| Case {
      pair: (a.into(), b.into()),
      transport,
      sndhwm,
      rcvhwm,
      sndtimeo,
      rcvtimeo,
      batch,
      msg_kib,
      multi_thread,
      sender_binds,
    })
}

fn payload(seq: u32, size: usize) -> Vec<u8> {
  acc_frame(1, seq, 0, 1, size)
}

/// Builds the message a sender of the given type hands to send_multipart.
fn outgoing(sender_type: &str, seq: u32, size: usize) -> Vec<Msg> {
  let body = Msg::from_vec(payload(seq, size));
  if sender_type == "ROUTER" {
    let mut id = Msg::from_static(b"peer");
    id.set_flags(MsgFlags::MORE);
    vec![id, body]
  } else {
    vec![body]
  }
}

fn seq_of(frames: &[Msg]) -> Result<u32, String> {
  // the accounting frame is the last frame (ROUTER prepends the identity)
  let last = frames.last().ok_or("empty message")?;
  parse_acc(last.data().unwrap_or(&[])).map(|a| a.msg_seq)
}

async fn body(c: &Case, paused: bool) -> L2 {
  let ctx = match rzmq::Context::new() {
    Ok(x) => x,
    Err(e) => return L2::Inconclusive(e.to_string()),
  };
  let (stype, rtype) = (c.pair.0.as_str(), c.pair.1.as_str());
  let mut ropts = vec![stack::i32opt(opt::RCVHWM, c.rcvhwm as i32), stack::i32opt(opt::RCVTIMEO, c.rcvtimeo), stack::i32opt(opt::RCVBUF, 8192)];
  let mut sopts = vec![stack::i32opt(opt::SNDHWM, c.sndhwm as i32), stack::i32opt(opt::SNDTIMEO, c.sndtimeo), stack::i32opt(opt::SNDBUF, 8192)];
  if let Some((sc, rc)) = c.batch {
    sopts.push(stack::i32opt(opt::SNDBATCH_COUNT, sc as i32));
    ropts.push(stack::i32opt(opt::RCVBATCH_COUNT, rc as i32));
  }
  if rtype == "DEALER" && stype == "ROUTER" {
    ropts.push((opt::ROUTING_ID, b"peer".to_vec()));
  }
  if stype == "ROUTER" {
    // otherwise a message for a peer whose identity is not known yet is dropped silently
    // and the flood would never meet a full queue
    sopts.push(stack::i32opt(opt::ROUTER_MANDATORY, 1));
  }
  // one side binds, the other connects; the connecting side's monitor reports the handshake
  let (bind_ty, bind_opts, conn_ty, conn_opts) = if c.sender_binds { (stype, &sopts, rtype, &ropts) } else { (rtype, &ropts, stype, &sopts) };
  let (binder, ep) = match stack::bound(&ctx, bind_ty, c.transport, bind_opts).await {
    Ok(x) => x,
    Err(e) => return L2::Inconclusive(e),
  };
  let connector = match ctx.socket(stack::stype(conn_ty)) {
    Ok(s) => s,
    Err(e) => return L2::Inconclusive(e.to_string()),
  };
  if let Err(e) = stack::set_opts(&connector, conn_opts).await {
    return L2::Inconclusive(e);
  }
  let mon = match connector.monitor_default().await {
    Ok(m) => m,
    Err(e) => return L2::Inconclusive(e.to_string()),
  };
  if let Err(e) = connector.connect(&ep).await {
    return L2::Inconclusive(e.to_string());
  }
  if c.transport != Transport::Inproc {
    if stack::wait_event(&mon, Duration::from_secs(5), |e| matches!(e, SocketEvent::HandshakeSucceeded { .. })).await.is_none() {
      return L2::Inconclusive("no HandshakeSucceeded".into());
    }
  }
  let (sender, receiver) = if c.sender_binds { (binder, connector) } else { (connector, binder) };
  tokio::time::sleep(Duration::from_millis(50)).await;
  let size = c.msg_kib as usize * 1024;
  let v = |check: &str, d: String| {
    L2::Violation(
      Violation::new(check, d)
        .with("layer", "stack")
        .with("transport", c.transport.name())
        .with("sender", c.pair.0.clone())
        .with("sndtimeo", if c.sndtimeo < 0 { "infinite" } else if c.sndtimeo == 0 { "zero" } else { "positive" }),
    )
  };

  // --- receive side first: the queue is empty ---
  {
    let t = tokio::time::Instant::now();
    let wait_cap = Duration::from_millis(if c.rcvtimeo < 0 { 2000 } else { c.rcvtimeo as u64 + 3000 });
    let r = tokio::time::timeout(wait_cap, receiver.recv_multipart()).await;
    let el = t.elapsed();
    match (c.rcvtimeo, r) {
      (-1, Err(_)) => {}
      (-1, Ok(res)) => return v("recv_returned_on_empty_queue", format!("RCVTIMEO -1, empty queue: recv returned {:?} after {:?}", res.map(|f| f.len()).map_err(|e| e.to_string()), el)),
      (_, Ok(Ok(f))) => return v("recv_spurious_success", format!("RCVTIMEO {}: recv on an empty queue returned {} frames", c.rcvtimeo, f.len())),
      (_, Err(_)) => return v("rcvtimeo_not_honoured", format!("RCVTIMEO {} ms: recv still pending after {:?}", c.rcvtimeo, el)),
      (t_ms, Ok(Err(e))) => {
        let kind = stack::err_kind(&e);
        if kind != "timeout" && kind != "would_block" {
          return v("recv_wrong_error", format!("RCVTIMEO {}: error {} on an empty queue", t_ms, e));
        }
        let lo = Duration::from_millis(t_ms as u64);
        let early = if paused { el < lo } else { el + Duration::from_millis(2) < lo };
        let late = el > lo + Duration::from_millis(if paused { 5 } else { 600 });
        if early || late {
          return v("rcvtimeo_not_honoured", format!("RCVTIMEO {} ms: recv failed after {:?}", t_ms, el));
        }
      }
    }
  }

  // --- send side: flood a peer that does not read ---
  let mut accepted: Vec<u32> = Vec::new();
  let mut refused: Vec<u32> = Vec::new();
  // The statement asks for "HWMs plus a fixed batching allowance" without naming the constant;
  // the bound is deliberately generous (DEALER keeps a second queue of SNDHWM, sessions hold a
  // batch in flight on each side) - what it must exclude is growth without limit.
  let bound = 3 * (c.sndhwm as usize + c.rcvhwm as usize)
    + 2 * c.batch.map(|(s, r)| s as usize + r as usize).unwrap_or(256)
    + if c.transport == Transport::Inproc { 0 } else { (8 * 65536 / size).max(1) + 8 }
    + 64;
  let mut seq = 0u32;
  let mut blocked_forever = false;
  loop {
    if accepted.len() > bound + 50 {
      return v("hwm_not_enforced", format!("{} messages of {} KiB accepted while the peer never reads (SNDHWM {} RCVHWM {}, batches {:?}); bound {}", accepted.len(), c.msg_kib, c.sndhwm, c.rcvhwm, c.batch, bound));
    }
    let t = tokio::time::Instant::now();
    let cap = Duration::from_millis(if c.sndtimeo < 0 { 2000 } else { c.sndtimeo as u64 + 3000 });
    let r = tokio::time::timeout(cap, sender.send_multipart(outgoing(stype, seq, size))).await;
    let el = t.elapsed();
    match r {
      Ok(Ok(())) => {
        accepted.push(seq);
        seq += 1;
        continue;
      }
      Err(_) => {
        if c.sndtimeo < 0 {
          blocked_forever = true; // as it should
          // the dropped future may or may not have enqueued the message: tolerate either
          refused.push(seq);
          break;
        }
        return v("sndtimeo_not_honoured", format!("SNDTIMEO {} ms: send #{} still pending after {:?}", c.sndtimeo, seq, el));
      }
      Ok(Err(e)) => {
        let kind = stack::err_kind(&e);
        if kind == "host_unreachable" && accepted.is_empty() {
          return L2::Inconclusive("ROUTER does not know the peer's identity yet".into());
        }
        if kind != "timeout" && kind != "would_block" {
          return v("send_wrong_error", format!("send #{} on a full queue failed with {}", seq, e));
        }
        if c.sndtimeo < 0 {
          return v("infinite_sndtimeo_gave_up", format!("SNDTIMEO -1: send #{} failed with {} after {:?} instead of waiting for room", seq, e, el));
        }
        let lo = Duration::from_millis(c.sndtimeo as u64);
        let early = if paused { el < lo } else { el + Duration::from_millis(2) < lo };
        let late = el > lo + Duration::from_millis(if paused { 5 } else if c.sndtimeo == 0 { 500 } else { 600 });
        if early || late {
          return v("sndtimeo_not_honoured", format!("SNDTIMEO {} ms: send #{} on a full queue failed with {} after {:?}", c.sndtimeo, seq, kind, el));
        }
        refused.push(seq);
        break;
      }
    }
  }
  if accepted.len() > bound {
    return v("hwm_not_enforced", format!("{} messages of {} KiB accepted while the peer never reads (SNDHWM {} RCVHWM {}, batches {:?}); bound {}", accepted.len(), c.msg_kib, c.sndhwm, c.rcvhwm, c.batch, bound));
  }
  // --- now the peer reads: everything accepted arrives once, in order; nothing refused ---
  // a sentinel closes the stream (sent with retries: the queue drains while we read)
  let sentinel_seq = u32::MAX - 1;
  let s2 = sender.clone();
  let stype_owned = stype.to_string();
  let trace = std::env::var("VERIF_TRACE").is_ok();
  if trace {
    eprintln!("TRACE flood done: accepted {} refused {:?}", accepted.len(), refused);
  }
  let sentinel_task = tokio::spawn(async move {
    for i in 0..2000 {
      let r = s2.send_multipart(outgoing(&stype_owned, sentinel_seq, 64)).await;
      if trace && (i < 3 || i % 500 == 0) {
        eprintln!("TRACE sentinel try {} -> {:?}", i, r.as_ref().map_err(|e| e.to_string()));
      }
      if r.is_ok() {
        return true;
      }
      tokio::time::sleep(Duration::from_millis(5)).await;
    }
    false
  });
  let mut got: Vec<u32> = Vec::new();
  let read_deadline = tokio::time::Instant::now() + Duration::from_secs(if paused { 3600 } else { 20 });
  loop {
    if tokio::time::Instant::now() > read_deadline {
      return L2::Inconclusive(format!("sentinel not received; got {} of {} accepted", got.len(), accepted.len()));
    }
    match tokio::time::timeout(Duration::from_secs(5), receiver.recv_multipart()).await {
      Ok(Ok(frames)) => match seq_of(&frames) {
        Ok(s) if s == sentinel_seq => break,
        Ok(s) => got.push(s),
        Err(e) => return v("corrupted_message", format!("received frame does not verify: {}", e)),
      },
      Ok(Err(_)) | Err(_) => {
        // RCVTIMEO 0 returns at once: give the other tasks a turn
        tokio::time::sleep(Duration::from_millis(1)).await;
        continue;
      }
    }
  }
  let _ = sentinel_task.await;
  // a cancelled (timed out by the harness) send with SNDTIMEO -1 may have been enqueued or not
  let mut want = accepted.clone();
  if blocked_forever && got.len() == want.len() + 1 && got.last() == refused.first() {
    want.push(refused[0]);
  }
  if got != want {
    let extra: Vec<&u32> = got.iter().filter(|g| refused.contains(g)).collect();
    let check = if !extra.is_empty() && !blocked_forever { "refused_message_delivered" } else { "accepted_message_lost_or_reordered" };
    return v(check, format!("accepted {} messages (first refusal at #{}), received {:?}... (len {}), refused-but-delivered {:?}", accepted.len(), seq, &got[..got.len().min(12)], got.len(), extra));
  }
  let _ = sender.close().await;
  let _ = receiver.close().await;
  stack::term(&ctx).await;
  L2::Ok
}

/// Infinite SNDTIMEO really waits: under the paused clock a send blocked at HWM must still be
/// pending after 1000 virtual seconds and complete once the peer reads.
async fn infinite_wait_body(pair: (&str, &str), transport: Transport, wait_s: u64) -> L2 {
  let ctx = match rzmq::Context::new() {
    Ok(x) => x,
    Err(e) => return L2::Inconclusive(e.to_string()),
  };
  let mut ropts = vec![stack::i32opt(opt::RCVHWM, 1)];
  if pair.0 == "ROUTER" {
    ropts.push((opt::ROUTING_ID, b"peer".to_vec()));
  }
  ropts.push(stack::i32opt(opt::RCVBUF, 8192));
  let (receiver, ep) = match stack::bound(&ctx, pair.1, transport, &ropts).await {
    Ok(x) => x,
    Err(e) => return L2::Inconclusive(e),
  };
  let sender = match stack::connected(&ctx, pair.0, &ep, &[stack::i32opt(opt::SNDHWM, 1), stack::i32opt(opt::SNDTIMEO, -1), stack::i32opt(opt::SNDBUF, 8192)]).await {
    Ok(s) => s,
    Err(e) => return L2::Inconclusive(e),
  };
  if pair.0 == "ROUTER" {
    let _ = sender.set_option_raw(opt::ROUTER_MANDATORY, &1i32.to_ne_bytes()).await;
  }
  tokio::time::sleep(Duration::from_millis(300)).await;
  let size = if transport == Transport::Inproc { 256 } else { 65536 };
  let mut seq = 0u32;
  let start = tokio::time::Instant::now();
  // fill until a send does not finish within 1 virtual second
  let blocked = loop {
    let fut = sender.send_multipart(outgoing(pair.0, seq, size));
    tokio::pin!(fut);
    match tokio::time::timeout(Duration::from_secs(1), &mut fut).await {
      Ok(Ok(())) => {
        seq += 1;
        if seq > 2000 {
          return L2::Violation(Violation::new("hwm_not_enforced", format!("{} -> {} inproc HWM 1/1: 2000 messages accepted without a reader", pair.0, pair.1)).with("layer", "stack"));
        }
      }
      Ok(Err(e)) => {
        return L2::Violation(
          Violation::new("infinite_sndtimeo_gave_up", format!("{} -> {} {} SNDTIMEO -1: send #{} failed with {} after {:?}", pair.0, pair.1, transport.name(), seq, e, start.elapsed()))
            .with("layer", "stack")
            .with("sender", pair.0.to_string())
            .with("transport", transport.name())
            .with("sndtimeo", "infinite"),
        );
      }
      Err(_) => {
        // keep waiting on the same future for 1000 more virtual seconds
        match tokio::time::timeout(Duration::from_secs(wait_s), &mut fut).await {
          Err(_) => break true,
          Ok(Ok(())) => break false,
          Ok(Err(e)) => {
            return L2::Violation(
              Violation::new("infinite_sndtimeo_gave_up", format!("{} -> {} {} SNDTIMEO -1: a send blocked at HWM failed with {} after {:?} instead of waiting", pair.0, pair.1, transport.name(), e, start.elapsed()))
                .with("layer", "stack")
                .with("sender", pair.0.to_string())
                .with("transport", transport.name())
                .with("sndtimeo", "infinite"),
            );
          }
        }
      }
    }
  };
  let _ = blocked;
  let _ = receiver.close().await;
  let _ = sender.close().await;
  stack::term(&ctx).await;
  L2::Ok
}


/// RCVTIMEO on a parked recv while peers come and go: every arrival / departure touches the
/// receiving socket's internals (pipe attach, identity bookkeeping), none of it may restart or
/// stretch the timeout.
#[derive(Clone, Debug, Serialize, Deserialize)]
pub struct ChurnCase {
  pub rtype: String,
  pub transport: Transport,
  pub rcvtimeo: u16,
  pub peers: u8,
  pub gap_ms: u16,
  pub leave: bool,
}

async fn churn_body(c: &ChurnCase, paused: bool) -> L2 {
  let ctx = match rzmq::Context::new() {
    Ok(x) => x,
    Err(e) => return L2::Inconclusive(e.to_string()),
  };
  let stype = match c.rtype.as_str() {
    "PULL" => "PUSH",
    "ROUTER" => "DEALER",
    "DEALER" => "ROUTER",
    "SUB" => "PUB",
    _ => "REQ",
  };
  let (receiver, ep) = match stack::bound(&ctx, &c.rtype, c.transport, &[stack::i32opt(opt::RCVTIMEO, c.rcvtimeo as i32)]).await {
    Ok(x) => x,
    Err(e) => return L2::Inconclusive(e),
  };
  if c.rtype == "SUB" {
    let _ = receiver.set_option_raw(opt::SUBSCRIBE, b"").await;
  }
  let ctx2 = ctx.clone();
  let ep2 = ep.clone();
  let (n, gap, leave) = (c.peers, c.gap_ms as u64, c.leave);
  let churn = tokio::spawn(async move {
    let mut keep = Vec::new();
    for i in 0..n {
      tokio::time::sleep(Duration::from_millis(gap)).await;
      if let Ok(s) = stack::connected(&ctx2, stype, &ep2, &[]).await {
        if leave && i % 2 == 1 {
          tokio::time::sleep(Duration::from_millis(gap / 2)).await;
          let _ = s.close().await;
        } else {
          keep.push(s);
        }
      }
    }
    keep
  });
  let t = tokio::time::Instant::now();
  let cap = Duration::from_millis(c.rcvtimeo as u64 + (n as u64 + 2) * gap * 2 + 3000);
  let r = tokio::time::timeout(cap, receiver.recv_multipart()).await;
  let el = t.elapsed();
  let keep = churn.await.unwrap_or_default();
  let v = |check: &str, d: String| L2::Violation(Violation::new(check, d).with("layer", "stack").with("transport", c.transport.name()).with("receiver", c.rtype.clone()));
  let out = match r {
    Err(_) => v("rcvtimeo_not_honoured", format!("{} RCVTIMEO {} ms with {} silent peers arriving {} ms apart: recv still pending after {:?}", c.rtype, c.rcvtimeo, n, gap, el)),
    Ok(Ok(f)) => v("recv_spurious_success", format!("recv returned {} frames although no peer sent anything", f.len())),
    Ok(Err(e)) => {
      let kind = stack::err_kind(&e);
      let lo = Duration::from_millis(c.rcvtimeo as u64);
      let late = el > lo + Duration::from_millis(if paused { 10 } else { 600 });
      let early = if paused { el < lo } else { el + Duration::from_millis(2) < lo };
      if kind != "timeout" && kind != "would_block" {
        v("recv_wrong_error", format!("{}: error {} on an empty queue", c.rtype, e))
      } else if late || early {
        v("rcvtimeo_not_honoured", format!("{} RCVTIMEO {} ms with {} silent peers arriving {} ms apart: recv failed after {:?}", c.rtype, c.rcvtimeo, n, gap, el))
      } else {
        L2::Ok
      }
    }
  };
  for s in keep {
    let _ = s.close().await;
  }
  let _ = receiver.close().await;
  let _ = tokio::time::timeout(Duration::from_secs(20), ctx.term()).await;
  out
}

fn churn_strategy() -> impl Strategy<Value = ChurnCase> + Clone {
  (
    prop::sample::select(vec!["PULL", "ROUTER", "DEALER", "SUB", "REP", "ROUTER"]),
    prop::sample::select(vec![Transport::Tcp, Transport::Ipc, Transport::Inproc]),
    prop::sample::select(vec![100u16, 250, 400]),
    2u8..9,
    prop::sample::select(vec![20u16, 60, 120]),
    any::<bool>(),
  )
    .prop_map(|(r, transport, rcvtimeo, peers, gap_ms, leave)| ChurnCase { rtype: r.to_string(), transport: if r == "DEALER" && transport == Transport::Inproc { Transport::Ipc } else { transport }, rcvtimeo, peers, gap_ms, leave })
}

fn run_paused<F: std::future::Future<Output = L2>>(ceiling_real: Duration, desc: String, body: F) -> L2 {
  let rt = tokio::runtime::Builder::new_current_thread().enable_all().start_paused(true).build().unwrap();
  // the watchdog must be in real time: run it on a helper thread
  let (tx, rx) = std::sync::mpsc::channel();
  let r = std::thread::scope(|s| {
    s.spawn(move || {
      if rx.recv_timeout(ceiling_real).is_err() {
        eprintln!("C14: a paused-clock case exceeded its real-time ceiling; aborting the process as inconclusive: {}", desc);
        println!("INCONCLUSIVE property=C14 reason=watchdog");
        std::process::exit(2);
      }
    });
    let r = rt.block_on(body);
    let _ = tx.send(());
    r
  });
  rt.shutdown_timeout(Duration::from_secs(1));
  r
}

pub fn run(run: &mut Run) {
  run.rule = "cases = sender/receiver pair in {PUSH->PULL, DEALER->DEALER, DEALER->ROUTER, ROUTER->DEALER} x transport (inproc on a paused clock except DEALER senders, tcp/ipc on the real clock) x SNDHWM, RCVHWM in {1,2,10,100} x SNDTIMEO in {-1,0,1,20,100,500} x RCVTIMEO in {-1,0,1,20,100,500} x SNDBATCH/RCVBATCH_COUNT unset or 1..8 x 16/64 KiB messages x which side binds (the sender in 40%); first recv on an empty queue, then flood until the first refusal, then drain behind a sentinel; recv_timeout_under_peer_churn: a parked recv with RCVTIMEO in {100,250,400} ms on PULL/ROUTER/DEALER/SUB/REP while 2..8 silent peers connect (and every second one leaves again) 20..120 ms apart. Non-trivial = the flood reached a refusal (the queue really was full). Distinct = hash of the case".into();
  run.assumptions = vec![
    "bound on accepted messages = 3*(SNDHWM+RCVHWM) + 2*(SNDBATCH_COUNT + RCVBATCH_COUNT) (256 when unset) + kernel allowance (tcp/ipc: 8*64KiB/size + 8) + 64 - generous on purpose: the property names no constant, only boundedness by the HWMs plus a fixed allowance".into(),
    "real-clock slack: +600 ms on positive timeouts, 500 ms on zero (scheduling noise on a loaded machine; a timeout that is ignored or restarted overruns by far more); paused clock: exact (5-10 ms)".into(),
    "a send with SNDTIMEO -1 that the harness gives up on after 2 s may or may not have been enqueued (both accepted)".into(),
  ];
  let n = match run.tier {
    Tier::Quick => 60,
    Tier::Thorough => 1500,
  };
  run.prop("flood_and_drain", n, 4, 6, case_strategy(), |c, rec: &mut CaseRec| {
    rec.nontrivial = true;
    rec.label(c.transport.name());
    rec.label_if(c.sender_binds, "sender_binds");
    rec.label(match c.sndtimeo {
      -1 => "sndtimeo_infinite",
      0 => "sndtimeo_zero",
      _ => "sndtimeo_positive",
    });
    // A DEALER's outgoing-queue processor re-queues and re-notifies itself for as long as every
    // peer is full (it spins through tokio's cooperative budget). On a paused clock that keeps
    // the runtime from ever being idle, so virtual time stops and any timer the case needs for
    // progress never fires: DEALER senders are judged on the real clock.
    let paused = c.transport == Transport::Inproc && !c.multi_thread && c.pair.0 != "DEALER";
    rec.label_if(paused, "paused_clock");
    if !paused && std::env::var("VERIF_C14_DEBUG_PAUSED_ONLY").is_ok() {
      return Ok(());
    }
    let r = if paused {
      run_paused(Duration::from_secs(60), format!("{:?}", c), body(c, true))
    } else {
      stack::run_l2(if c.multi_thread { Rt::Multi(2) } else { Rt::Current }, Duration::from_secs(90), body(c, false))
    };
    l2_result(run, "flood_and_drain", r)
  });
  let n_churn = match run.tier {
    Tier::Quick => 24,
    Tier::Thorough => 400,
  };
  run.prop("recv_timeout_under_peer_churn", n_churn, 6, 4, churn_strategy(), |c, rec: &mut CaseRec| {
    rec.nontrivial = (c.peers as u64) * (c.gap_ms as u64) > c.rcvtimeo as u64 / 2;
    rec.label(c.transport.name());
    rec.label_if(c.rtype == "ROUTER", "router_receiver");
    let paused = c.transport == Transport::Inproc;
    let r = if paused { run_paused(Duration::from_secs(60), format!("{:?}", c), churn_body(c, true)) } else { stack::run_l2(Rt::Multi(2), Duration::from_secs(60), churn_body(c, false)) };
    l2_result(run, "recv_timeout_under_peer_churn", r)
  });
  let pairs = prop::sample::select(vec![("PUSH", "PULL"), ("DEALER", "DEALER"), ("DEALER", "ROUTER"), ("ROUTER", "DEALER")]).prop_map(|(a, b)| (a.to_string(), b.to_string()));
  run.prop("infinite_sndtimeo_waits", 8, 4, 2, pairs, |p, rec: &mut CaseRec| {
    rec.nontrivial = true;
    rec.label("paused_clock");
    let r = run_paused(Duration::from_secs(60), format!("infinite {:?}", p), infinite_wait_body((&p.0, &p.1), Transport::Inproc, 1000));
    l2_result(run, "infinite_sndtimeo_waits", r)
  });
  // real clock, tcp: the wait must outlast 32 s (thorough tier only; one directed case per pair)
  if run.tier == Tier::Thorough || run.is_replay() {
    let pairs = prop::sample::select(vec![("ROUTER", "DEALER"), ("PUSH", "PULL"), ("DEALER", "ROUTER")]).prop_map(|(a, b)| (a.to_string(), b.to_string()));
    run.prop("infinite_sndtimeo_waits_tcp", 4, 4, 0, pairs, |p, rec: &mut CaseRec| {
      rec.nontrivial = true;
      rec.label("real_clock_32s");
      let r = stack::run_l2(Rt::Multi(2), Duration::from_secs(120), infinite_wait_body((&p.0, &p.1), Transport::Tcp, 32));
      l2_result(run, "infinite_sndtimeo_waits_tcp", r)
    });
  }
  stack::cleanup_scratch();
}
