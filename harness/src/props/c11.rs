//! C11 — ROUTER addresses by true peer identity; envelopes round-trip unchanged.
//!
//! L2. A bound ROUTER and 1..5 DEALER/REQ peers with generated routing ids (absent, 1 byte,
//! 255 bytes, random, colliding). Every payload embeds its sender's label, so the identity frame
//! the ROUTER reports can be judged; the ROUTER then answers each identity with a message that
//! names the addressee, so each peer can tell whether what it receives was meant for it. Payload
//! shapes put empty frames in every position.

use crate::engine::{fill, CaseRec, Run, Tier, Violation};
use crate::stack::{self, l2_result, run_l2, Rt, Transport, L2};
use proptest::prelude::*;
use rzmq::socket::options as opt;
use rzmq::socket::SocketEvent;
use rzmq::{Msg, MsgFlags};
use serde::{Deserialize, Serialize};
use std::collections::HashMap;
use std::time::Duration;

#[derive(Clone, Debug, Serialize, Deserialize, PartialEq, Eq)]
pub enum IdKind {
  Absent,
  OneByte(u8),
  Max255(u8),
  Random(Vec<u8>),
  /// same id as peer 0
  CollideWithFirst,
}

#[derive(Clone, Debug, Serialize, Deserialize)]
pub struct PeerSpec {
  pub req: bool,
  pub id: IdKind,
  /// first message straight after connect() (true) or after HandshakeSucceeded
  pub eager: bool,
  /// payload shapes: frame lengths, 0 = empty frame
  pub shapes: Vec<Vec<u8>>,
  /// close and reconnect with the same identity after the first round
  pub reconnect: bool,
}

#[derive(Clone, Debug, Serialize, Deserialize)]
pub struct Case {
  pub transport: Transport,
  pub rt: Rt,
  pub mandatory: bool,
  pub auto_delimiter: bool,
  pub peers: Vec<PeerSpec>,
  /// the application polls the ROUTER with RCVTIMEO = 0 from a second task while the peers are
  /// still connecting (the non-blocking receive path meets connections whose identity is not
  /// registered yet)
  #[serde(default)]
  pub poll: bool,
}

fn shape_strategy() -> impl Strategy<Value = Vec<u8>> + Clone {
  prop::collection::vec(prop_oneof![2 => Just(0u8), 3 => 1u8..40], 1..6)
}

fn peer_strategy() -> impl Strategy<Value = PeerSpec> + Clone {
  (
    prop::bool::weighted(0.3),
    prop_oneof![
      2 => Just(IdKind::Absent),
      2 => (1u8..=255).prop_map(IdKind::OneByte),
      1 => (1u8..=255).prop_map(IdKind::Max255),
      3 => prop::collection::vec(1u8..=255, 2..12).prop_map(IdKind::Random),
      1 => Just(IdKind::CollideWithFirst),
    ],
    any::<bool>(),
    prop::collection::vec(shape_strategy(), 1..4),
    prop::bool::weighted(0.2),
  )
    .prop_map(|(req, id, eager, shapes, reconnect)| PeerSpec { req, id, eager, shapes, reconnect })
}

fn case_strategy() -> impl Strategy<Value = Case> + Clone {
  (
    prop::sample::select(vec![Transport::Tcp, Transport::Ipc, Transport::Inproc]),
    prop::sample::select(vec![Rt::Current, Rt::Multi(2)]),
    any::<bool>(),
    prop::bool::weighted(0.8),
    prop::collection::vec(peer_strategy(), 1..6),
    prop::bool::weighted(0.35),
  )
    .prop_map(|(transport, rt, mandatory, auto_delimiter, mut peers, poll)| {
      // REQ has no AUTO_DELIMITER switch (ROUTER always frames for it), so "the same setting on
      // both ends" only exists for DEALER peers: no REQ peers in manual mode
      if !auto_delimiter {
        for p in peers.iter_mut() {
          p.req = false;
        }
      }
      if poll {
        // the race needs messages that arrive right behind the handshake
        for p in peers.iter_mut() {
          p.eager = true;
        }
      }
      Case { transport, rt, mandatory, auto_delimiter, peers, poll }
    })
}

fn resolve_ids(peers: &[PeerSpec]) -> Vec<Option<Vec<u8>>> {
  let mut out: Vec<Option<Vec<u8>>> = Vec::new();
  for (i, p) in peers.iter().enumerate() {
    let id = match &p.id {
      IdKind::Absent => None,
      IdKind::OneByte(b) => Some(vec![*b]),
      IdKind::Max255(b) => Some(vec![*b; 255]),
      IdKind::Random(v) => Some(v.clone()),
      IdKind::CollideWithFirst => {
        if i == 0 {
          Some(vec![0x42, 0x42])
        } else {
          out[0].clone().or(Some(vec![0x42, 0x42]))
        }
      }
    };
    out.push(id);
  }
  out
}

/// Payload frame: label byte + marker + fill; an empty shape entry stays an empty frame.
fn payload_frames(label: u8, msg_no: u8, shape: &[u8], dir: u8) -> Vec<Vec<u8>> {
  let mut out: Vec<Vec<u8>> = Vec::new();
  let mut labelled = false;
  for (i, len) in shape.iter().enumerate() {
    if *len == 0 {
      out.push(vec![]);
    } else {
      let mut f = vec![b'L', dir, label, msg_no, i as u8];
      f.extend(fill(*len as usize, (label as u64) << 16 | (msg_no as u64) << 8 | i as u64));
      out.push(f);
      labelled = true;
    }
  }
  if !labelled {
    // make sure at least one frame carries the label
    out.push(vec![b'L', dir, label, msg_no, shape.len() as u8]);
  }
  out
}

fn label_of(frames: &[Vec<u8>], dir: u8) -> Option<(u8, u8)> {
  frames.iter().find(|f| f.len() >= 5 && f[0] == b'L' && f[1] == dir).map(|f| (f[2], f[3]))
}

fn to_msgs(frames: &[Vec<u8>]) -> Vec<Msg> {
  let n = frames.len();
  frames
    .iter()
    .enumerate()
    .map(|(i, b)| {
      let mut m = Msg::from_vec(b.clone());
      if i + 1 < n {
        m.set_flags(MsgFlags::MORE);
      }
      m
    })
    .collect()
}

struct Live {
  sock: rzmq::Socket,
  spec: PeerSpec,
  id: Option<Vec<u8>>,
  label: u8,
}

async fn connect_peer(ctx: &rzmq::Context, c: &Case, ep: &str, spec: &PeerSpec, id: &Option<Vec<u8>>, label: u8, wait: bool) -> Result<Live, String> {
  let ty = if spec.req { "REQ" } else { "DEALER" };
  let s = ctx.socket(stack::stype(ty)).map_err(|e| e.to_string())?;
  let mut opts = vec![stack::i32opt(opt::SNDTIMEO, 3000), stack::i32opt(opt::RCVTIMEO, 1500)];
  if let Some(i) = id {
    opts.push((opt::ROUTING_ID, i.clone()));
  }
  stack::set_opts(&s, &opts).await?;
  if !c.auto_delimiter && !spec.req {
    s.set_option_raw(opt::AUTO_DELIMITER, &0i32.to_ne_bytes()).await.map_err(|e| e.to_string())?;
  }
  let mon = s.monitor_default().await.map_err(|e| e.to_string())?;
  s.connect(ep).await.map_err(|e| e.to_string())?;
  if wait {
    if c.transport == Transport::Inproc {
      tokio::time::sleep(Duration::from_millis(40)).await;
    } else if stack::wait_event(&mon, Duration::from_secs(5), |e| matches!(e, SocketEvent::HandshakeSucceeded { .. })).await.is_none() {
      return Err("no HandshakeSucceeded".into());
    }
  }
  Ok(Live { sock: s, spec: spec.clone(), id: id.clone(), label })
}

async fn body(c: &Case) -> L2 {
  let ctx = match rzmq::Context::new() {
    Ok(x) => x,
    Err(e) => return L2::Inconclusive(e.to_string()),
  };
  let (router, ep) = match stack::bound(&ctx, "ROUTER", c.transport, &[stack::i32opt(opt::RCVTIMEO, if c.poll { 0 } else { 1500 }), stack::i32opt(opt::SNDTIMEO, 3000)]).await {
    Ok(x) => x,
    Err(e) => return L2::Inconclusive(e),
  };
  // poll mode: a second task spins on recv_multipart() from now on
  let polled: std::sync::Arc<std::sync::Mutex<std::collections::VecDeque<Vec<rzmq::Msg>>>> = Default::default();
  let stop_poll = std::sync::Arc::new(std::sync::atomic::AtomicBool::new(false));
  let poller = if c.poll {
    let (r2, q, stop) = (router.clone(), polled.clone(), stop_poll.clone());
    Some(tokio::spawn(async move {
      while !stop.load(std::sync::atomic::Ordering::Relaxed) {
        match r2.recv_multipart().await {
          Ok(f) => q.lock().unwrap().push_back(f.into_iter().collect()),
          Err(_) => tokio::task::yield_now().await,
        }
      }
    }))
  } else {
    None
  };
  if c.mandatory {
    let _ = router.set_option_raw(opt::ROUTER_MANDATORY, &1i32.to_ne_bytes()).await;
  }
  if !c.auto_delimiter {
    let _ = router.set_option_raw(opt::AUTO_DELIMITER, &0i32.to_ne_bytes()).await;
  }
  let ids = resolve_ids(&c.peers);
  let collide: Vec<bool> = (0..ids.len()).map(|i| ids[i].is_some() && ids.iter().enumerate().any(|(j, x)| j != i && *x == ids[i])).collect();
  let v = |check: &str, d: String| L2::Violation(Violation::new(check, d).with("layer", "stack").with("transport", c.transport.name()).with("auto_delimiter", c.auto_delimiter));
  let manual = !c.auto_delimiter;

  // --- peers connect and send ---
  let mut live: Vec<Live> = Vec::new();
  let mut expected_from: Vec<(u8, u8, Vec<Vec<u8>>)> = Vec::new(); // (label, msg_no, payload)
  for (i, spec) in c.peers.iter().enumerate() {
    let p = match connect_peer(&ctx, c, &ep, spec, &ids[i], i as u8, !spec.eager).await {
      Ok(p) => p,
      Err(e) => return L2::Inconclusive(e),
    };
    let n_msgs = if spec.req { 1 } else { spec.shapes.len() };
    for (m, shape) in spec.shapes.iter().take(n_msgs).enumerate() {
      let mut payload = payload_frames(i as u8, m as u8, shape, b'U');
      if spec.req {
        payload.truncate(1);
        if payload[0].is_empty() {
          payload[0] = vec![b'L', b'U', i as u8, m as u8, 0];
        }
      }
      // in manual mode the application supplies the delimiter itself
      let mut wire = payload.clone();
      if manual && !spec.req {
        wire.insert(0, vec![]);
      }
      let r = if spec.req { p.sock.send(to_msgs(&wire).remove(0)).await } else { p.sock.send_multipart(to_msgs(&wire)).await };
      if let Err(e) = r {
        return L2::Inconclusive(format!("peer {} send failed: {}", i, e));
      }
      expected_from.push((i as u8, m as u8, payload));
    }
    live.push(p);
  }
  // --- ROUTER receives everything ---
  let mut reported: HashMap<u8, Vec<Vec<u8>>> = HashMap::new(); // label -> identity frames reported
  let mut got_count = 0;
  let total = expected_from.len();
  while got_count < total {
    let frames: Vec<rzmq::Msg> = if c.poll {
      let deadline = tokio::time::Instant::now() + Duration::from_millis(2500);
      loop {
        if let Some(f) = polled.lock().unwrap().pop_front() {
          break f;
        }
        if tokio::time::Instant::now() >= deadline {
          stop_poll.store(true, std::sync::atomic::Ordering::Relaxed);
          return v("message_lost", format!("polling ROUTER received {} of {} messages", got_count, total));
        }
        tokio::time::sleep(Duration::from_millis(2)).await;
      }
    } else {
      match router.recv_multipart().await {
        Ok(f) => f.into_iter().collect(),
        Err(e) => return v("message_lost", format!("ROUTER received {} of {} messages: {}", got_count, total, e)),
      }
    };
    let bodies: Vec<Vec<u8>> = frames.iter().map(|m| m.data().unwrap_or(&[]).to_vec()).collect();
    if bodies.len() < 2 {
      return v("envelope_malformed", format!("ROUTER delivered a message of {} frames", bodies.len()));
    }
    let identity = bodies[0].clone();
    let mut payload: Vec<Vec<u8>> = bodies[1..].to_vec();
    if manual {
      // manual mode: the envelope is left to the application; the harness supplied one delimiter
      if payload.first().map(|f| f.is_empty()).unwrap_or(false) {
        payload.remove(0);
      }
    }
    let (label, msg_no) = match label_of(&payload, b'U') {
      Some(x) => x,
      None => return v("payload_changed", format!("no labelled frame in {:?}", payload.iter().map(|f| f.len()).collect::<Vec<_>>())),
    };
    let want = expected_from.iter().find(|(l, m, _)| *l == label && *m == msg_no).map(|x| x.2.clone());
    if want.as_ref() != Some(&payload) {
      return v(
        "payload_changed",
        format!("peer {} message {}: ROUTER delivered payload frame lengths {:?}, sent {:?}", label, msg_no, payload.iter().map(|f| f.len()).collect::<Vec<_>>(), want.map(|w| w.iter().map(|f| f.len()).collect::<Vec<_>>())),
      );
    }
    // identity judgement
    let li = label as usize;
    match &ids[li] {
      Some(announced) => {
        if &identity != announced {
          return v(
            "wrong_identity_reported",
            format!("peer {} announced a {}-byte identity {:02x?}.. but its message was reported under {:02x?} (eager first send: {})", label, announced.len(), &announced[..announced.len().min(6)], &identity[..identity.len().min(12)], c.peers[li].eager),
          )
          .with_sig("eager", c.peers[li].eager);
        }
      }
      None => {
        // placeholder: stable per connection, never another live peer's identity
        if ids.iter().enumerate().any(|(j, x)| j != li && x.as_ref() == Some(&identity)) {
          return v("wrong_identity_reported", format!("anonymous peer {} was reported under another peer's identity", label));
        }
      }
    }
    reported.entry(label).or_default().push(identity);
    got_count += 1;
  }
  stop_poll.store(true, std::sync::atomic::Ordering::Relaxed);
  if let Some(h) = poller {
    let _ = h.await;
    // the rest of the case uses blocking receives again
    let _ = router.set_option_raw(opt::RCVTIMEO, &1500i32.to_ne_bytes()).await;
  }
  for (label, idl) in &reported {
    if idl.windows(2).any(|w| w[0] != w[1]) {
      return v("placeholder_not_stable", format!("peer {} was reported under different identities {:02x?}", label, idl.iter().map(|i| i[..i.len().min(8)].to_vec()).collect::<Vec<_>>()));
    }
  }
  // --- ROUTER answers every identity; each peer must only see what was meant for it ---
  let mut expected_to: HashMap<u8, Vec<Vec<Vec<u8>>>> = HashMap::new();
  for (label, idl) in &reported {
    let li = *label as usize;
    let shape = c.peers[li].shapes.last().cloned().unwrap_or_else(|| vec![3]);
    let mut payload = payload_frames(*label, 200, &shape, b'D');
    if c.peers[li].spec_req() {
      // REQ applications see the payload after the delimiter, one message per request
      payload.truncate(payload.len().max(1));
    }
    let mut wire = vec![idl[0].clone()];
    if manual {
      wire.push(vec![]);
    }
    wire.extend(payload.clone());
    match router.send_multipart(to_msgs(&wire)).await {
      Ok(()) => {
        expected_to.entry(*label).or_default().push(payload);
      }
      Err(e) => return v("router_send_failed", format!("ROUTER could not answer peer {} under the identity it reported itself: {}", label, e)),
    }
  }
  for p in &live {
    let want = expected_to.get(&p.label).cloned().unwrap_or_default();
    let mut got: Vec<Vec<Vec<u8>>> = Vec::new();
    loop {
      let r = if p.spec.req && !got.is_empty() { Err(rzmq::ZmqError::Timeout) } else { p.sock.recv_multipart().await };
      match r {
        Ok(frames) => {
          let mut bodies: Vec<Vec<u8>> = frames.iter().map(|m| m.data().unwrap_or(&[]).to_vec()).collect();
          if manual && !p.spec.req {
            // manual mode hands the raw envelope to the application: the identity frame the
            // ROUTER application supplied and the delimiter it added may precede the payload
            if let Some(idf) = reported.get(&p.label).and_then(|l| l.first()) {
              if bodies.first() == Some(idf) {
                bodies.remove(0);
              }
            }
            if bodies.first().map(|f| f.is_empty()).unwrap_or(false) {
              bodies.remove(0);
            }
          }
          got.push(bodies);
          if got.len() > want.len() + 2 {
            break;
          }
        }
        Err(_) => break,
      }
    }
    for g in &got {
      match label_of(g, b'D') {
        Some((l, _)) if l == p.label => {}
        Some((l, _)) => {
          // only acceptable if both announced the very same identity
          if !(collide[p.label as usize] && ids[l as usize] == ids[p.label as usize]) {
            return v("misrouted", format!("peer {} (identity {:?}) received a message addressed to peer {} (identity {:?})", p.label, ids[p.label as usize].as_ref().map(|i| i.len()), l, ids[l as usize].as_ref().map(|i| i.len())));
          }
        }
        None => return v("payload_changed", format!("peer {} received an unlabelled message {:?}", p.label, g.iter().map(|f| f.len()).collect::<Vec<_>>())),
      }
    }
    if !collide[p.label as usize] {
      if p.spec.req {
        // REQ.recv_multipart: everything after the delimiter
        if got.len() != want.len().min(1) || (got.len() == 1 && got[0] != want[0]) {
          return v(
            "payload_changed",
            format!("REQ peer {}: reply frames {:?}, ROUTER sent {:?}", p.label, got.first().map(|g| g.iter().map(|f| f.len()).collect::<Vec<_>>()), want.first().map(|g| g.iter().map(|f| f.len()).collect::<Vec<_>>())),
          )
          .with_sig("peer", "REQ");
        }
      } else if got != want {
        return v(
          "payload_changed",
          format!("DEALER peer {}: received {:?}, ROUTER sent {:?}", p.label, got.iter().map(|g| g.iter().map(|f| f.len()).collect::<Vec<_>>()).collect::<Vec<_>>(), want.iter().map(|g| g.iter().map(|f| f.len()).collect::<Vec<_>>()).collect::<Vec<_>>()),
        )
        .with_sig("peer", "DEALER");
      }
    }
  }
  // --- unknown identity ---
  let unknown = vec![0xEE; 9];
  let mut wire = vec![unknown];
  if manual {
    wire.push(vec![]);
  }
  wire.push(b"nobody".to_vec());
  let r = router.send_multipart(to_msgs(&wire)).await;
  match (c.mandatory, &r) {
    (true, Err(e)) if stack::err_kind(e) == "host_unreachable" => {}
    (true, other) => return v("unroutable_not_reported", format!("ROUTER_MANDATORY: send to an unknown identity returned {:?}", other.as_ref().map_err(|e| e.to_string()))),
    (false, Ok(())) => {}
    (false, Err(e)) => return v("unroutable_not_silent", format!("without ROUTER_MANDATORY a send to an unknown identity failed: {}", e)),
  }
  // nobody may receive it
  for p in &live {
    if let Ok(Ok(frames)) = tokio::time::timeout(Duration::from_millis(60), p.sock.recv_multipart()).await {
      if frames.iter().any(|m| m.data().unwrap_or(&[]) == b"nobody") {
        return v("misrouted", format!("peer {} received a message addressed to an identity nobody announced", p.label));
      }
    }
  }
  // --- reconnect with the same identity ---
  for i in 0..live.len() {
    if !live[i].spec.reconnect || live[i].id.is_none() || collide[i] || live[i].spec.req {
      continue;
    }
    let _ = live[i].sock.close().await;
    tokio::time::sleep(Duration::from_millis(150)).await;
    let spec = live[i].spec.clone();
    let id = live[i].id.clone();
    let np = match connect_peer(&ctx, c, &ep, &spec, &id, i as u8, true).await {
      Ok(p) => p,
      Err(e) => return L2::Inconclusive(e),
    };
    // the new connection has to introduce itself before a non-mandatory ROUTER can address it
    let hello = payload_frames(i as u8, 250, &[4], b'U');
    let mut wire_up = hello.clone();
    if manual {
      wire_up.insert(0, vec![]);
    }
    let _ = np.sock.send_multipart(to_msgs(&wire_up)).await;
    let _ = router.recv_multipart().await;
    let payload = payload_frames(i as u8, 251, &[7, 0, 3], b'D');
    let mut wire = vec![id.clone().unwrap()];
    if manual {
      wire.push(vec![]);
    }
    wire.extend(payload.clone());
    if let Err(e) = router.send_multipart(to_msgs(&wire)).await {
      return v("router_send_failed", format!("after peer {} reconnected with the same identity: {}", i, e));
    }
    match np.sock.recv_multipart().await {
      Ok(frames) => {
        let mut bodies: Vec<Vec<u8>> = frames.iter().map(|m| m.data().unwrap_or(&[]).to_vec()).collect();
        if manual {
          if bodies.first() == id.as_ref() {
            bodies.remove(0);
          }
          if bodies.first().map(|f| f.is_empty()).unwrap_or(false) {
            bodies.remove(0);
          }
        }
        if bodies != payload {
          return v("payload_changed", format!("after reconnect peer {} received {:?}", i, bodies.iter().map(|f| f.len()).collect::<Vec<_>>()));
        }
      }
      Err(e) => return v("message_lost", format!("after reconnecting with the same identity peer {} did not get the message addressed to it: {}", i, e)),
    }
    live[i] = np;
  }
  for p in &live {
    let _ = p.sock.close().await;
  }
  let _ = router.close().await;
  stack::term(&ctx).await;
  L2::Ok
}

trait SpecExt {
  fn spec_req(&self) -> bool;
}
impl SpecExt for PeerSpec {
  fn spec_req(&self) -> bool {
    self.req
  }
}

trait WithSig {
  fn with_sig(self, k: &str, v: impl Into<serde_json::Value>) -> Self;
}
impl WithSig for L2 {
  fn with_sig(self, k: &str, val: impl Into<serde_json::Value>) -> Self {
    match self {
      L2::Violation(v) => L2::Violation(v.with(k, val)),
      o => o,
    }
  }
}


/// A raw DEALER announces an identity and writes READY together with its first message in one
/// write, round after round, while the application receives with a generated RCVTIMEO (0 =
/// polling, small, or blocking): the first message must already come out under the announced
/// identity, never under the connection's placeholder.
#[derive(Clone, Debug, Serialize, Deserialize)]
pub struct EarlyCase {
  pub transport: Transport,
  pub rt: Rt,
  pub rcvtimeo: i32,
  pub rounds: u8,
  pub id_len: u8,
}

async fn early_body(c: &EarlyCase) -> L2 {
  use crate::wire;
  let ctx = match rzmq::Context::new() {
    Ok(x) => x,
    Err(e) => return L2::Inconclusive(e.to_string()),
  };
  let (router, ep) = match stack::bound(&ctx, "ROUTER", c.transport, &[stack::i32opt(opt::RCVTIMEO, c.rcvtimeo)]).await {
    Ok(x) => x,
    Err(e) => return L2::Inconclusive(e),
  };
  let mut wrong: Vec<(u8, Vec<u8>)> = Vec::new();
  let mut decided = 0u32;
  for round in 0..c.rounds {
    let mut id = format!("peer-{:03}-", round).into_bytes();
    while id.len() < c.id_len.max(9) as usize {
      id.push(b'x');
    }
    let mut raw = match stack::raw_connect(&ep).await {
      Ok(r) => r,
      Err(e) => return L2::Inconclusive(e.to_string()),
    };
    if raw.write_all(&wire::greeting_v3(1, "NULL", false)).await.is_err() {
      continue;
    }
    let (g, _) = raw.read_at_least(64, Duration::from_secs(3)).await;
    if g.len() < 64 {
      return L2::Inconclusive("no greeting from the ROUTER".into());
    }
    let mut burst = wire::encode_frames(&[wire::ready("DEALER", Some(&id))]);
    let payload = format!("hello-{:03}", round).into_bytes();
    burst.extend(wire::encode_frames(&[wire::RefFrame::data(vec![], true), wire::RefFrame::data(payload.clone(), false)]));
    if raw.write_all(&burst).await.is_err() {
      continue;
    }
    // receive the way the application would
    let deadline = tokio::time::Instant::now() + Duration::from_millis(2000);
    let got = loop {
      match tokio::time::timeout(Duration::from_millis(2500), router.recv_multipart()).await {
        Ok(Ok(f)) => break Some(f),
        Ok(Err(_)) => {
          if tokio::time::Instant::now() >= deadline {
            break None;
          }
          tokio::task::yield_now().await;
        }
        Err(_) => break None,
      }
    };
    if let Some(f) = got {
      let bodies: Vec<Vec<u8>> = f.iter().map(|m| m.data().unwrap_or(&[]).to_vec()).collect();
      if bodies.last() == Some(&payload) {
        decided += 1;
        if bodies.first() != Some(&id) {
          wrong.push((round, bodies.first().cloned().unwrap_or_default()));
        }
      }
    }
    drop(raw);
  }
  let verdict = if let Some((round, rep)) = wrong.first() {
    L2::Violation(
      Violation::new("wrong_identity_reported", format!("round {}: a peer that announced a {}-byte identity in READY had its first message (same write as READY) reported under {:?} ({} of {} rounds; RCVTIMEO {})", round, c.id_len.max(9), String::from_utf8_lossy(rep), wrong.len(), decided, c.rcvtimeo))
        .with("layer", "stack")
        .with("transport", c.transport.name())
        .with("auto_delimiter", true),
    )
  } else if decided == 0 {
    L2::Inconclusive("no round delivered its message".into())
  } else {
    L2::Ok
  };
  let _ = router.close().await;
  stack::term(&ctx).await;
  verdict
}

/// The ROUTER application addresses a peer frame by frame (identity frame with MORE, then the
/// payload frames) while, between two of those frames, a *different* peer leaves or a new one
/// joins: the addressed peer must still receive exactly that payload, and the next message too.
#[derive(Clone, Debug, Serialize, Deserialize)]
pub enum Bystander {
  Nothing,
  Leaves,
  Joins,
}

#[derive(Clone, Debug, Serialize, Deserialize)]
pub struct FragMsg {
  pub target: u16,
  pub shape: Vec<u8>,
  /// the event happens after this many frames have been handed over (1 = after the identity)
  pub after_frames: u8,
  pub event: Bystander,
}

#[derive(Clone, Debug, Serialize, Deserialize)]
pub struct FragCase {
  pub transport: Transport,
  pub rt: Rt,
  pub mandatory: bool,
  pub peers: u8,
  pub msgs: Vec<FragMsg>,
}

async fn frag_body(c: &FragCase) -> L2 {
  let ctx = match rzmq::Context::new() {
    Ok(x) => x,
    Err(e) => return L2::Inconclusive(e.to_string()),
  };
  let router = match ctx.socket(stack::stype("ROUTER")) {
    Ok(s) => s,
    Err(e) => return L2::Inconclusive(e.to_string()),
  };
  let mut ropts = vec![stack::i32opt(opt::RCVTIMEO, 1500), stack::i32opt(opt::SNDTIMEO, 3000)];
  if c.mandatory {
    ropts.push(stack::i32opt(opt::ROUTER_MANDATORY, 1));
  }
  if let Err(e) = stack::set_opts(&router, &ropts).await {
    return L2::Inconclusive(e);
  }
  let rmon = match router.monitor_default().await {
    Ok(m) => m,
    Err(e) => return L2::Inconclusive(e.to_string()),
  };
  let ep = c.transport.fresh_endpoint();
  if let Err(e) = router.bind(&ep).await {
    return L2::Inconclusive(e.to_string());
  }
  let ep = if c.transport == Transport::Tcp {
    match router.get_option(opt::LAST_ENDPOINT).await {
      Ok(v) => String::from_utf8_lossy(&v).to_string(),
      Err(e) => return L2::Inconclusive(e.to_string()),
    }
  } else {
    ep
  };
  let v = |check: &str, d: String| L2::Violation(Violation::new(check, d).with("layer", "stack").with("transport", c.transport.name()).with("api", "frame_by_frame"));
  let env = Case { transport: c.transport, rt: c.rt, mandatory: c.mandatory, auto_delimiter: true, peers: vec![], poll: false };
  let spec = PeerSpec { req: false, id: IdKind::Absent, eager: false, shapes: vec![], reconnect: false };
  let mut peers: Vec<Option<Live>> = Vec::new();
  let mut next_label = 0u8;
  // a peer connects, introduces itself, and the ROUTER takes note
  async fn join(ctx: &rzmq::Context, env: &Case, ep: &str, spec: &PeerSpec, label: u8, router: &rzmq::Socket) -> Result<Live, String> {
    let id = Some(vec![b'P', b'-', label, 0x7f]);
    let p = connect_peer(ctx, env, ep, spec, &id, label, true).await?;
    p.sock.send_multipart(to_msgs(&[vec![b'h', b'i', label]])).await.map_err(|e| e.to_string())?;
    let f = router.recv_multipart().await.map_err(|e| format!("introduction of peer {} not received: {}", label, e))?;
    if f.first().and_then(|m| m.data()).map(|d| d.to_vec()) != id {
      return Err("introduction out of order".into());
    }
    Ok(p)
  }
  for _ in 0..c.peers {
    match join(&ctx, &env, &ep, &spec, next_label, &router).await {
      Ok(p) => peers.push(Some(p)),
      Err(e) => return L2::Inconclusive(e),
    }
    next_label += 1;
  }
  for (mi, m) in c.msgs.iter().enumerate() {
    let alive: Vec<usize> = (0..peers.len()).filter(|i| peers[*i].is_some()).collect();
    if alive.is_empty() {
      break;
    }
    let ti = alive[(m.target as usize * alive.len()) >> 16];
    let (tid, tlabel) = {
      let t = peers[ti].as_ref().unwrap();
      (t.id.clone().unwrap(), t.label)
    };
    let payload = payload_frames(tlabel, mi as u8, &m.shape, b'D');
    let mut wire = vec![tid.clone()];
    wire.extend(payload.clone());
    let frames = to_msgs(&wire);
    let n = frames.len();
    let after = (m.after_frames as usize).clamp(1, n - 1);
    let mut newcomers: Vec<Live> = Vec::new();
    for (k, f) in frames.into_iter().enumerate() {
      if k == after {
        match m.event {
          Bystander::Nothing => {}
          Bystander::Leaves => {
            if let Some(vi) = alive.iter().copied().find(|i| *i != ti) {
              let victim = peers[vi].take().unwrap();
              let _ = victim.sock.close().await;
              // wait until the ROUTER has seen the detach
              let _ = stack::wait_event(&rmon, Duration::from_millis(1500), |e| matches!(e, SocketEvent::Disconnected { .. })).await;
              tokio::time::sleep(Duration::from_millis(120)).await;
            }
          }
          Bystander::Joins => {
            // the newcomer introduces itself once the message in progress is out; until the
            // ROUTER has seen that introduction it is not addressed (its identity may not be
            // registered yet although its own handshake has succeeded)
            let id = Some(vec![b'P', b'-', next_label, 0x7f]);
            match connect_peer(&ctx, &env, &ep, &spec, &id, next_label, true).await {
              Ok(p) => newcomers.push(p),
              Err(e) => return L2::Inconclusive(e),
            }
            next_label += 1;
          }
        }
      }
      if let Err(e) = router.send(f).await {
        return v("router_send_failed", format!("message {}: frame {} of {} of a frame-by-frame send to the live peer {} failed with {} (bystander event {:?} after frame {})", mi, k, n, tlabel, e, m.event, after));
      }
    }
    let t = peers[ti].as_ref().unwrap();
    match t.sock.recv_multipart().await {
      Ok(fr) => {
        let bodies: Vec<Vec<u8>> = fr.iter().map(|x| x.data().unwrap_or(&[]).to_vec()).collect();
        if bodies != payload {
          return v("payload_changed", format!("message {}: peer {} received frame lengths {:?}, the ROUTER application sent {:?} (bystander event {:?} after frame {})", mi, tlabel, bodies.iter().map(|f| f.len()).collect::<Vec<_>>(), payload.iter().map(|f| f.len()).collect::<Vec<_>>(), m.event, after));
        }
      }
      Err(e) => return v("message_lost", format!("message {}: peer {} did not receive the message sent to it frame by frame: {} (bystander event {:?} after frame {})", mi, tlabel, e, m.event, after)),
    }
    // the next whole message to the same peer
    let next = payload_frames(tlabel, 100 + mi as u8, &[6], b'D');
    let mut wire = vec![tid];
    wire.extend(next.clone());
    if let Err(e) = router.send_multipart(to_msgs(&wire)).await {
      return v("router_send_failed", format!("message {}: send_multipart to peer {} after the frame-by-frame send failed: {}", mi, tlabel, e));
    }
    match t.sock.recv_multipart().await {
      Ok(fr) => {
        let bodies: Vec<Vec<u8>> = fr.iter().map(|x| x.data().unwrap_or(&[]).to_vec()).collect();
        if bodies != next {
          return v("payload_changed", format!("message {}: the message after the frame-by-frame send reached peer {} as {:?}", mi, tlabel, bodies.iter().map(|f| f.len()).collect::<Vec<_>>()));
        }
      }
      Err(e) => return v("message_lost", format!("message {}: the message after the frame-by-frame send did not reach peer {}: {}", mi, tlabel, e)),
    }
    for p in newcomers {
      if let Err(e) = p.sock.send_multipart(to_msgs(&[vec![b'h', b'i', p.label]])).await {
        return L2::Inconclusive(format!("newcomer {} could not introduce itself: {}", p.label, e));
      }
      match router.recv_multipart().await {
        Ok(f) if f.first().and_then(|m| m.data()).map(|d| d.to_vec()) == p.id => {}
        other => return L2::Inconclusive(format!("introduction of newcomer {} not received: {:?}", p.label, other.map(|f| f.len()).map_err(|e| e.to_string()))),
      }
      peers.push(Some(p));
    }
  }
  for p in peers.iter().flatten() {
    let _ = p.sock.close().await;
  }
  let _ = router.close().await;
  stack::term(&ctx).await;
  L2::Ok
}

pub fn run(run: &mut Run) {
  run.rule = "cases = bound ROUTER (ROUTER_MANDATORY on/off, AUTO_DELIMITER on/off consistently on both ends) over tcp/ipc/inproc with 1..5 peers (DEALER, 30% REQ) whose routing ids are absent / 1 byte / 255 bytes / random / colliding with peer 0; each peer sends 1..3 payloads of 1..5 frames with empty frames in any position, the first one straight after connect() or after HandshakeSucceeded; ROUTER answers every reported identity; unknown identity; 20% of peers reconnect under the same identity. 35% of the cases poll the ROUTER with RCVTIMEO 0 from a second task while the peers connect; first_message_with_ready: 8..29 rounds of a raw DEALER that announces an identity and writes READY and its first message in one write while the ROUTER receives with RCVTIMEO in {0,1,20,-1}; frame_by_frame_send_with_bystanders: 2..4 DEALER peers, 1..3 messages of 1..5 frames sent with send() frame by frame to one of them while, after a generated frame, another peer leaves / a new peer joins / nothing happens, each followed by a send_multipart to the same peer. Non-trivial = at least two peers and (an empty frame in a payload, or a first message before the identity event, or a reconnect/collision). Distinct = hash of the case".into();
  run.assumptions = vec![
    "REQ sends single-frame requests; AUTO_DELIMITER is set the same way on both ends; with colliding identities only 'delivered to a peer that never announced that identity' counts".into(),
    "ROUTER-ROUTER peers are not generated".into(),
  ];
  let n = match run.tier {
    Tier::Quick => 80,
    Tier::Thorough => 2000,
  };
  run.prop("envelopes", n, 8, 20, case_strategy(), |c, rec: &mut CaseRec| {
    let empties = c.peers.iter().any(|p| p.shapes.iter().any(|s| s.contains(&0)));
    let eager = c.peers.iter().any(|p| p.eager);
    let special = c.peers.iter().any(|p| p.reconnect || p.id == IdKind::CollideWithFirst);
    rec.nontrivial = c.peers.len() >= 2 && (empties || eager || special);
    rec.label(c.transport.name());
    rec.label_if(eager, "first_message_before_identity_event");
    rec.label_if(empties, "empty_frames_in_payload");
    rec.label_if(c.peers.iter().any(|p| p.req), "req_peer");
    rec.label_if(!c.auto_delimiter, "manual_delimiter");
    rec.label_if(c.poll, "router_polled_with_rcvtimeo_0");
    let r = run_l2(c.rt, Duration::from_secs(90), body(c));
    l2_result(run, "envelopes", r)
  });
  let early = (prop::sample::select(vec![Transport::Tcp, Transport::Ipc]), prop::sample::select(vec![Rt::Current, Rt::Multi(2), Rt::Multi(4)]), prop::sample::select(vec![0i32, 0, 1, 20, -1]), 8u8..30, prop::sample::select(vec![9u8, 40, 255]))
    .prop_map(|(transport, rt, rcvtimeo, rounds, id_len)| EarlyCase { transport, rt, rcvtimeo, rounds, id_len });
  run.prop("first_message_with_ready", (n / 8).max(6), 6, 4, early, |c, rec: &mut CaseRec| {
    rec.nontrivial = true;
    rec.label(c.transport.name());
    rec.label(match c.rcvtimeo {
      0 => "polling_rcvtimeo_0",
      -1 => "blocking",
      _ => "short_rcvtimeo",
    });
    let r = run_l2(c.rt, Duration::from_secs(90), early_body(c));
    l2_result(run, "first_message_with_ready", r)
  });
  let frag_msg = (any::<u16>(), shape_strategy(), 1u8..5, prop_oneof![1 => Just(Bystander::Nothing), 3 => Just(Bystander::Leaves), 2 => Just(Bystander::Joins)])
    .prop_map(|(target, shape, after_frames, event)| FragMsg { target, shape, after_frames, event });
  let frag = (prop::sample::select(vec![Transport::Tcp, Transport::Ipc, Transport::Inproc]), prop::sample::select(vec![Rt::Current, Rt::Multi(2)]), any::<bool>(), 2u8..5, prop::collection::vec(frag_msg, 1..4))
    .prop_map(|(transport, rt, mandatory, peers, msgs)| FragCase { transport, rt, mandatory, peers, msgs });
  run.prop("frame_by_frame_send_with_bystanders", (n / 4).max(12), 6, 10, frag, |c, rec: &mut CaseRec| {
    rec.nontrivial = c.msgs.iter().any(|m| !matches!(m.event, Bystander::Nothing));
    rec.label(c.transport.name());
    rec.label_if(c.msgs.iter().any(|m| matches!(m.event, Bystander::Leaves)), "another_peer_leaves_mid_message");
    rec.label_if(c.msgs.iter().any(|m| matches!(m.event, Bystander::Joins)), "another_peer_joins_mid_message");
    let r = run_l2(c.rt, Duration::from_secs(90), frag_body(c));
    l2_result(run, "frame_by_frame_send_with_bystanders", r)
  });
  if run.undecided("envelopes") * 10 > n as u64 * 2 {
    run.inconclusive(format!("{} of {} cases could not be decided", run.undecided("envelopes"), n));
  }
  stack::cleanup_scratch();
}
