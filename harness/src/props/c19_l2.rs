//! C19, stack level: a raw NULL peer against a real session with heartbeats enabled.

use crate::engine::{CaseRec, Run, Tier, Violation};
use crate::stack::{self, l2_result, run_l2, Rt, Transport, L2};
use crate::wire::{self, RefDecode, RefFrame};
use proptest::prelude::*;
use rzmq::socket::options as opt;
use serde::{Deserialize, Serialize};
use std::time::Duration;

#[derive(Clone, Copy, Debug, Serialize, Deserialize, PartialEq, Eq)]
pub enum Behaviour {
  /// answers every PING for the whole observation window
  Answering,
  /// answers for 1.4 s (session minimum lifespan), then goes silent
  Silent,
  /// answers for 1.4 s, then never PONGs again but keeps sending data frames
  DataNoPong,
  /// answers PINGs and also PINGs rzmq itself with generated contexts
  PeerPings,
}

#[derive(Clone, Debug, Serialize, Deserialize)]
pub struct Case {
  pub ivl_ms: u16,
  pub timeout_ms: u16,
  pub behaviour: Behaviour,
  pub transport: Transport,
  pub ctx_len: u8,
}

fn case_strategy() -> impl Strategy<Value = Case> + Clone {
  (
    prop::sample::select(vec![100u16, 150]),
    prop::sample::select(vec![150u16, 250]),
    prop::sample::select(vec![Behaviour::Answering, Behaviour::Silent, Behaviour::DataNoPong, Behaviour::PeerPings]),
    prop::sample::select(vec![Transport::Tcp, Transport::Ipc]),
    0u8..17,
  )
    .prop_map(|(ivl_ms, timeout_ms, behaviour, transport, ctx_len)| Case { ivl_ms, timeout_ms, behaviour, transport, ctx_len })
}

struct Reader {
  acc: Vec<u8>,
  skipped_greeting: bool,
}

impl Reader {
  fn push(&mut self, b: &[u8]) -> Vec<RefFrame> {
    self.acc.extend_from_slice(b);
    if !self.skipped_greeting {
      if self.acc.len() < 64 {
        return vec![];
      }
      self.acc.drain(..64);
      self.skipped_greeting = true;
    }
    let mut out = Vec::new();
    loop {
      match wire::decode_frame(&self.acc) {
        RefDecode::Frame(f, n) => {
          self.acc.drain(..n);
          out.push(f);
        }
        _ => break,
      }
    }
    out
  }
}

async fn body(c: &Case) -> L2 {
  let ctx = match rzmq::Context::new() {
    Ok(x) => x,
    Err(e) => return L2::Inconclusive(e.to_string()),
  };
  let opts = vec![stack::i32opt(opt::HEARTBEAT_IVL, c.ivl_ms as i32), stack::i32opt(opt::HEARTBEAT_TIMEOUT, c.timeout_ms as i32), stack::i32opt(opt::RCVTIMEO, 200)];
  let (pull, ep) = match stack::bound(&ctx, "PULL", c.transport, &opts).await {
    Ok(x) => x,
    Err(e) => return L2::Inconclusive(e),
  };
  let mut raw = match stack::raw_connect(&ep).await {
    Ok(r) => r,
    Err(e) => return L2::Inconclusive(e.to_string()),
  };
  let mut hs = wire::greeting_v3(0, "NULL", false);
  wire::encode_frame(&wire::ready("PUSH", None), &mut hs);
  if raw.write_all(&hs).await.is_err() {
    return L2::Inconclusive("raw write failed".into());
  }
  let ivl = Duration::from_millis(c.ivl_ms as u64);
  let timeout = Duration::from_millis(c.timeout_ms as u64);
  let start = tokio::time::Instant::now();
  let warmup = Duration::from_millis(1400);
  let window = match c.behaviour {
    Behaviour::Answering | Behaviour::PeerPings => warmup + ivl * 12,
    Behaviour::Silent => warmup + timeout + ivl * 2 + Duration::from_millis(1500),
    Behaviour::DataNoPong => warmup + timeout + ivl * 6 + Duration::from_millis(500),
  };
  let mut rd = Reader { acc: Vec::new(), skipped_greeting: false };
  let mut last_activity = start; // last time bytes flowed either way, as seen by the peer
  let mut ping_gaps: Vec<u128> = Vec::new();
  let mut pings = 0usize;
  let mut first_unanswered: Option<tokio::time::Instant> = None;
  let mut closed_at: Option<tokio::time::Instant> = None;
  let mut my_pings_sent = 0usize;
  let mut pongs_ok = 0usize;
  let mut pong_bad: Option<String> = None;
  let mut next_data = start + warmup;
  let mut next_my_ping = start + Duration::from_millis(300);
  let my_ctx: Vec<u8> = crate::engine::fill(c.ctx_len as usize, 5);
  while start.elapsed() < window {
    let now = tokio::time::Instant::now();
    let quiet = now >= start + warmup;
    if c.behaviour == Behaviour::DataNoPong && quiet && now >= next_data {
      let mut f = Vec::new();
      wire::encode_frame(&RefFrame::data(b"tick".to_vec(), false), &mut f);
      if raw.write_all(&f).await.is_err() {
        closed_at = Some(now);
        break;
      }
      last_activity = now;
      next_data = now + ivl / 3;
    }
    if c.behaviour == Behaviour::PeerPings && now >= next_my_ping {
      let mut f = Vec::new();
      wire::encode_frame(&wire::ping(50, &my_ctx), &mut f);
      // a data frame right behind the PING: the PONG must still come back intact
      wire::encode_frame(&RefFrame::data(b"after-ping".to_vec(), false), &mut f);
      if raw.write_all(&f).await.is_err() {
        closed_at = Some(now);
        break;
      }
      my_pings_sent += 1;
      last_activity = now;
      next_my_ping = now + Duration::from_millis(170);
    }
    match raw.read_some(Duration::from_millis(10)).await {
      Ok(Some(b)) if b.is_empty() => {
        closed_at = Some(tokio::time::Instant::now());
        break;
      }
      Err(_) => {
        closed_at = Some(tokio::time::Instant::now());
        break;
      }
      Ok(Some(b)) => {
        let t = tokio::time::Instant::now();
        for f in rd.push(&b) {
          if f.command && f.body.starts_with(b"\x04PING") {
            pings += 1;
            ping_gaps.push(t.duration_since(last_activity).as_millis());
            let answer = match c.behaviour {
              Behaviour::Answering | Behaviour::PeerPings => true,
              _ => !quiet,
            };
            if answer {
              let mut p = Vec::new();
              wire::encode_frame(&wire::pong(&f.body[7.min(f.body.len())..]), &mut p);
              let _ = raw.write_all(&p).await;
            } else if first_unanswered.is_none() {
              first_unanswered = Some(t);
            }
            last_activity = t;
          } else if f.command && f.body.starts_with(b"\x04PONG") {
            if f.body[5..] == my_ctx[..] {
              pongs_ok += 1;
            } else {
              pong_bad = Some(format!("PONG context {:02x?}, PING context was {:02x?}", &f.body[5..], my_ctx));
            }
            last_activity = t;
          }
        }
      }
      Ok(None) => {}
    }
    // drain what the application receives so that the socket's queue never fills
    while let Ok(Ok(_)) = tokio::time::timeout(Duration::from_millis(1), pull.recv()).await {}
  }
  let v = |check: &str, d: String| L2::Violation(Violation::new(check, d).with("layer", "stack").with("transport", c.transport.name()));
  let verdict = match c.behaviour {
    Behaviour::Answering | Behaviour::PeerPings => {
      if let Some(t) = closed_at {
        v("live_peer_closed", format!("peer answered every PING (ivl {} timeout {}), connection closed after {:?}", c.ivl_ms, c.timeout_ms, t.duration_since(start))).with_sig("traffic_flowing", false)
      } else if pings == 0 {
        v("ping_missing", format!("no PING in {:?} with HEARTBEAT_IVL {}", window, c.ivl_ms))
      } else if let Some(g) = ping_gaps.iter().find(|g| c.behaviour == Behaviour::Answering && (**g as i128) < c.ivl_ms as i128 - 25) {
        // (only where every peer write is a reply to a PING: otherwise a PING already in
        // flight can cross the peer's own unsolicited write and look early from the outside)
        v("ping_too_early", format!("PING {} ms after the last activity, HEARTBEAT_IVL {} (gaps {:?})", g, c.ivl_ms, ping_gaps))
      } else if let Some(g) = ping_gaps.iter().skip(1).find(|g| **g > 2 * c.ivl_ms as u128 + 250) {
        v("ping_too_late", format!("PING {} ms after the last activity, HEARTBEAT_IVL {} (gaps {:?})", g, c.ivl_ms, ping_gaps))
      } else if let Some(b) = pong_bad {
        v("pong_wrong", b)
      } else if c.behaviour == Behaviour::PeerPings && pongs_ok + 1 < my_pings_sent {
        v("pong_missing", format!("peer sent {} PINGs, received {} PONGs", my_pings_sent, pongs_ok))
      } else {
        L2::Ok
      }
    }
    Behaviour::Silent => match (first_unanswered, closed_at) {
      (None, _) => L2::Inconclusive("no PING arrived after the warm-up".into()),
      (Some(_), None) => v("dead_peer_not_detected", format!("peer stopped answering; still connected {:?} later (ivl {} timeout {})", window - warmup, c.ivl_ms, c.timeout_ms)),
      (Some(p), Some(t)) => {
        let took = t.duration_since(p);
        if took + Duration::from_millis(30) < timeout {
          v("closed_before_timeout", format!("closed {:?} after the unanswered PING, HEARTBEAT_TIMEOUT {}", took, c.timeout_ms))
        } else {
          L2::Ok
        }
      }
    },
    Behaviour::DataNoPong => match closed_at {
      Some(t) => v("live_peer_closed", format!("peer kept sending data every {} ms but no PONG: connection closed {:?} after start (ivl {} timeout {})", c.ivl_ms / 3, t.duration_since(start), c.ivl_ms, c.timeout_ms)).with_sig("traffic_flowing", true),
      None => L2::Ok,
    },
  };
  drop(raw);
  let _ = pull.close().await;
  stack::term(&ctx).await;
  verdict
}

trait WithSig {
  fn with_sig(self, k: &str, v: bool) -> Self;
}
impl WithSig for L2 {
  fn with_sig(self, k: &str, val: bool) -> Self {
    match self {
      L2::Violation(v) => L2::Violation(v.with(k, val)),
      o => o,
    }
  }
}

fn prop_case(run: &Run, c: &Case, rec: &mut CaseRec) -> Result<(), Violation> {
  rec.nontrivial = true;
  rec.label(match c.behaviour {
    Behaviour::Answering => "answering",
    Behaviour::Silent => "silent",
    Behaviour::DataNoPong => "data_no_pong",
    Behaviour::PeerPings => "peer_pings",
  });
  let r = run_l2(Rt::Multi(2), Duration::from_secs(30), body(c));
  l2_result(run, "stack", r)
}

pub fn run(run: &Run) {
  let n = match run.tier {
    Tier::Quick => 16,
    Tier::Thorough => 300,
  };
  run.prop("stack", n, 4, 4, case_strategy(), |c, rec| prop_case(run, c, rec));
  if run.undecided("stack") * 10 > n as u64 * 3 {
    run.inconclusive(format!("{} of {} stack cases could not be decided", run.undecided("stack"), n));
  }
  stack::cleanup_scratch();
}
