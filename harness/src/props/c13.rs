//! C13 — PUSH/DEALER give each message to exactly one ready peer, fairly.
//!
//! L1 model: histories of add / remove / set_room / send against the real
//! OutgoingMessageOrchestrator with scripted connections, judged by the consequences of
//! round-robin (exactly one, ready-only, never fails while someone has room, exact k-per-peer on
//! stable all-ready windows, bounded pass-over under change).
//! L1 schedule: a sender waiting for its first peer vs. a peer being added, every interleaving
//! of the check-then-wait window (deterministic scheduler).
//! L2: PUSH with several PULL peers of which one never reads.

use crate::engine::{fill, hash_of, CaseRec, Run, Tier, Violation};
use crate::sched::{self, Aborted, TaskCtx};
use crate::stack::{self, l2_result, run_l2, Rt, Transport, L2};
use proptest::prelude::*;
use rzmq::socket::options as opt;
use rzmq::verif::{Orchestrator, ScriptedConn};
use serde::{Deserialize, Serialize};
use serde_json::json;
use std::collections::HashMap;
use std::sync::Arc;
use std::time::{Duration, Instant};

#[derive(Clone, Debug, Serialize, Deserialize)]
pub enum Op {
  Add(u8),
  Remove(u8),
  SetRoom(u8, u8),
  Send,
  /// a burst of sends (exercises stable windows)
  Burst(u8),
}

fn op_strategy() -> impl Strategy<Value = Op> + Clone {
  prop_oneof![
    3 => (0u8..6).prop_map(Op::Add),
    2 => (0u8..6).prop_map(Op::Remove),
    3 => (0u8..6, prop_oneof![2 => Just(0u8), 1 => 1u8..4, 2 => Just(200u8)]).prop_map(|(p, n)| Op::SetRoom(p, n)),
    6 => Just(Op::Send),
    3 => (2u8..25).prop_map(Op::Burst),
  ]
}

fn msg(seq: u32) -> rzmq::FrameBatch {
  let mut fb = rzmq::FrameBatch::new();
  fb.push(rzmq::Msg::from_vec(seq.to_be_bytes().to_vec()));
  fb
}

fn prop_history(ops: &Vec<Op>, rec: &mut CaseRec) -> Result<(), Violation> {
  let orch = Orchestrator::new();
  // reference: ordered peer list
  let mut peers: Vec<(u8, Arc<ScriptedConn>)> = Vec::new();
  let mut seq = 0u32;
  let mut passes: HashMap<u8, u32> = HashMap::new(); // sends to others while continuously ready
  let mut changes: HashMap<u8, u32> = HashMap::new();
  let mut window_counts: HashMap<u8, u32> = HashMap::new(); // deliveries in the current stable window
  let mut window_sends = 0u32;
  let mut saw_full_at_send = false;
  let mut removal_midstream = false;
  // reference rotation: a cursor over the peers in connection order; a send goes to the first
  // peer with room at or after the cursor and the cursor moves behind it; a peer that leaves is
  // taken out without disturbing the order of the others (the peer after it is next if it was)
  let mut cursor = 0usize;
  let mut removed_at_cursor = false;
  let reset_window = |wc: &mut HashMap<u8, u32>, ws: &mut u32| {
    wc.clear();
    *ws = 0;
  };
  let flat: Vec<Op> = ops.iter().flat_map(|o| if let Op::Burst(n) = o { vec![Op::Send; *n as usize] } else { vec![o.clone()] }).collect();
  for (i, op) in flat.iter().enumerate() {
    match op {
      Op::Add(p) => {
        if !peers.iter().any(|(id, _)| id == p) {
          let c = ScriptedConn::new(&format!("p{}", p), 200);
          orch.add_connection(&format!("uri-{}", p), c.clone());
          peers.push((*p, c));
          for v in changes.values_mut() {
            *v += 1;
          }
          passes.insert(*p, 0);
          changes.insert(*p, 0);
          reset_window(&mut window_counts, &mut window_sends);
        }
      }
      Op::Remove(p) => {
        if let Some(pos) = peers.iter().position(|(id, _)| id == p) {
          orch.remove_connection(&format!("uri-{}", p));
          peers.remove(pos);
          if pos < cursor {
            cursor -= 1;
          } else if pos == cursor && seq > 0 {
            removed_at_cursor = true;
          }
          if cursor >= peers.len() {
            cursor = 0;
          }
          passes.remove(p);
          changes.remove(p);
          for v in changes.values_mut() {
            *v += 1;
          }
          if seq > 0 {
            removal_midstream = true;
          }
          reset_window(&mut window_counts, &mut window_sends);
        }
      }
      Op::SetRoom(p, n) => {
        if let Some((_, c)) = peers.iter().find(|(id, _)| id == p) {
          c.set_room(*n as usize);
          for v in changes.values_mut() {
            *v += 1;
          }
          if *n == 0 {
            passes.insert(*p, 0);
          }
          reset_window(&mut window_counts, &mut window_sends);
        }
      }
      Op::Send | Op::Burst(_) => {
        let before: Vec<(u8, usize, usize)> = peers.iter().map(|(id, c)| (*id, c.room(), c.taken().len())).collect();
        let any_room = before.iter().any(|(_, r, _)| *r > 0);
        if before.iter().any(|(_, r, _)| *r == 0) && any_room {
          saw_full_at_send = true;
        }
        let predicted: Option<u8> = {
          let len = peers.len();
          let mut found = None;
          if len > 0 {
            let mut c2 = if cursor >= len { 0 } else { cursor };
            for _ in 0..len {
              let (id, room, _) = before[c2];
              c2 = (c2 + 1) % len;
              if room > 0 {
                found = Some(id);
                break;
              }
            }
            cursor = c2;
          }
          found
        };
        let m = msg(seq);
        seq += 1;
        let res = orch.try_route_sync(m);
        let res = match res {
          Ok(()) => Ok(()),
          Err((back, e)) => {
            if any_room {
              // the async path must not block either while someone has room
              match futures::executor::block_on(async { tokio::time::timeout(Duration::from_millis(200), orch.route_message(back, false)).await }) {
                Ok(Ok(())) => Ok(()),
                Ok(Err((_, e2))) => Err(format!("{} / {}", e, e2)),
                Err(_) => Err("route_message blocked although a peer has room".to_string()),
              }
            } else {
              Err(e.to_string())
            }
          }
        };
        let after: Vec<(u8, usize)> = peers.iter().map(|(id, c)| (*id, c.taken().len())).collect();
        let grew: Vec<u8> = before.iter().zip(after.iter()).filter(|(b, a)| a.1 > b.2).map(|(b, _)| b.0).collect();
        let total_growth: usize = before.iter().zip(after.iter()).map(|(b, a)| a.1 - b.2).sum();
        match res {
          Ok(()) => {
            if total_growth != 1 {
              return Err(Violation::new("not_exactly_one", format!("step {}: message {} was handed to {} connections ({:?})", i, seq - 1, total_growth, grew)).with("layer", "orchestrator"));
            }
            let who = grew[0];
            if predicted != Some(who) {
              return Err(
                Violation::new("rotation_order", format!("step {}: message {} went to peer {} but the rotation (peers in connection order {:?}, rooms {:?}) puts peer {:?} next", i, seq - 1, who, peers.iter().map(|(id, _)| *id).collect::<Vec<_>>(), before.iter().map(|b| b.1).collect::<Vec<_>>(), predicted))
                  .with("layer", "orchestrator"),
              );
            }
            let had_room = before.iter().find(|(id, _, _)| *id == who).map(|(_, r, _)| *r > 0).unwrap_or(false);
            if !had_room {
              return Err(Violation::new("sent_to_full_peer", format!("step {}: peer {} had no room", i, who)).with("layer", "orchestrator"));
            }
            // fairness bookkeeping
            for (id, r, _) in &before {
              if *id == who {
                passes.insert(*id, 0);
                changes.insert(*id, 0);
              } else if *r > 0 {
                let p = passes.entry(*id).or_insert(0);
                *p += 1;
                let allowed = (peers.len() as u32).saturating_sub(1) + changes.get(id).copied().unwrap_or(0);
                if *p > allowed {
                  return Err(
                    Violation::new("peer_starved", format!("step {}: peer {} had room for {} consecutive sends that went elsewhere ({} peers, {} changes since its last turn)", i, id, p, peers.len(), changes.get(id).copied().unwrap_or(0)))
                      .with("layer", "orchestrator"),
                  );
                }
              } else {
                passes.insert(*id, 0);
              }
            }
            // stable all-ready window: every aligned block of n sends gives each peer exactly one
            if before.iter().all(|(_, r, _)| *r > 0) {
              *window_counts.entry(who).or_insert(0) += 1;
              window_sends += 1;
              let n = peers.len() as u32;
              if window_sends % n == 0 {
                let k = window_sends / n;
                if peers.iter().any(|(id, _)| window_counts.get(id).copied().unwrap_or(0) != k) {
                  return Err(
                    Violation::new("not_round_robin", format!("step {}: after {} sends over a stable all-ready set of {} peers the split is {:?}", i, window_sends, n, window_counts)).with("layer", "orchestrator"),
                  );
                }
              }
            } else {
              reset_window(&mut window_counts, &mut window_sends);
            }
          }
          Err(e) => {
            if total_growth != 0 {
              return Err(Violation::new("error_but_delivered", format!("step {}: send failed ({}) yet {:?} received it", i, e, grew)).with("layer", "orchestrator"));
            }
            if any_room {
              return Err(Violation::new("refused_while_peer_ready", format!("step {}: send failed ({}) although peers {:?} have room", i, e, before)).with("layer", "orchestrator"));
            }
          }
        }
      }
    }
  }
  rec.nontrivial = saw_full_at_send || removal_midstream;
  rec.label_if(saw_full_at_send, "full_peer_skipped");
  rec.label_if(removal_midstream, "removal_midstream");
  rec.label_if(removed_at_cursor, "removed_peer_was_next_in_line");
  rec.label_if(peers.len() >= 3, "three_or_more_peers");
  Ok(())
}

// --- the check-then-wait window ------------------------------------------------------------------

fn wait_window(run: &Run, bound: usize) {
  for n_senders in [1usize, 2, 3] {
    wait_window_n(run, bound, n_senders);
  }
}

/// `n_senders` tasks block in route_message(wait_for_peer = true) on an orchestrator without
/// peers while another task adds the first peer: every one of them has to get its message out.
fn wait_window_n(run: &Run, bound: usize, n_senders: usize) {
  let sub = "wait_for_first_peer_schedules";
  let exec = |schedule: &[sched::Decision]| -> (sched::RunResult, bool) {
    let orch = Arc::new(Orchestrator::new());
    let conn = ScriptedConn::new("late", 10);
    let delivered = Arc::new(std::sync::atomic::AtomicUsize::new(0));
    let mut tasks: Vec<Box<dyn FnOnce(TaskCtx) -> Result<(), Aborted> + Send>> = Vec::new();
    for k in 0..n_senders {
      let o1 = orch.clone();
      let d1 = delivered.clone();
      tasks.push(Box::new(move |ctx: TaskCtx| {
        let r = ctx.block_on(o1.route_message(msg(k as u32 + 1), true))?;
        if r.is_ok() {
          d1.fetch_add(1, std::sync::atomic::Ordering::SeqCst);
        }
        Ok(())
      }));
    }
    let o2 = orch.clone();
    let c2 = conn.clone();
    tasks.push(Box::new(move |ctx: TaskCtx| {
      ctx.point("adder:before_add")?;
      o2.add_connection("uri-late", c2);
      ctx.point("adder:after_add")?;
      Ok(())
    }));
    let (res, _) = sched::run(tasks, schedule, 800, || Ok(()));
    let ok = delivered.load(std::sync::atomic::Ordering::SeqCst) == n_senders && conn.taken().len() == n_senders;
    (res, ok)
  };
  if run.is_replay() {
    if let Some(case) = run.replay_case(sub) {
      if case["senders"].as_u64().unwrap_or(1) as usize != n_senders {
        return;
      }
      let schedule: Vec<sched::Decision> = serde_json::from_value(case["schedule"].clone()).unwrap_or_default();
      let (res, ok) = exec(&schedule);
      if res.deadlock || !ok {
        run.report(sub, Violation::new("waiter_not_woken", format!("replay: deadlock={} all delivered={}", res.deadlock, ok)).with("layer", "load_balancer"), case);
      }
    }
    return;
  }
  let mut stop = false;
  // more tasks, more schedules: one decision less for three senders keeps the enumeration finite in seconds
  let bound_n = if n_senders >= 3 { bound.saturating_sub(1).max(2) } else { bound };
  let (runs, complete) = sched::explore(bound_n, 20_000, |schedule| {
    let (res, ok) = exec(schedule);
    let mut rec = CaseRec::default();
    rec.nontrivial = res.steps.iter().any(|s| s.label == "wait_for_connection:checked_empty");
    rec.label_if(rec.nontrivial, "sender_reached_wait");
    rec.label_if(n_senders > 1, "several_senders_waiting");
    let case = json!({"schedule": schedule, "senders": n_senders});
    run.record_case(sub, || case.clone(), &rec, hash_of(&(schedule.to_vec(), n_senders)));
    if res.deadlock || (!ok && !res.hit_step_limit) {
      let trace: Vec<String> = res.steps.iter().map(|s| format!("t{}@{}", s.ran, s.label)).collect();
      let v = Violation::new("waiter_not_woken", format!("{} sends waited for the first peer; after it was added not all of them got through (deadlock={}): {}", n_senders, res.deadlock, trace.join(" ")))
        .with("layer", "load_balancer");
      if !run.report(sub, v, case) {
        stop = true;
        return Err(());
      }
    }
    Ok(res.steps)
  });
  run.add_subspace(&format!("{} sender(s) waiting for a first peer vs. add_connection: every schedule with at most {} decisions", n_senders, bound_n), runs, complete && !stop);
}

// --- L2: one stalled PULL among several ------------------------------------------------------------------

#[derive(Clone, Debug, Serialize, Deserialize)]
pub struct StallCase {
  pub transport: Transport,
  pub n_readers: u8,
  pub msg_kib: u16,
  pub count: u16,
  pub sndtimeo: i32,
}

async fn stall_body(c: &StallCase) -> L2 {
  let ctx = match rzmq::Context::new() {
    Ok(x) => x,
    Err(e) => return L2::Inconclusive(e.to_string()),
  };
  let popts = vec![stack::i32opt(opt::SNDHWM, 4), stack::i32opt(opt::SNDBUF, 8192), stack::i32opt(opt::SNDTIMEO, c.sndtimeo)];
  let (push, ep) = match stack::bound(&ctx, "PUSH", c.transport, &popts).await {
    Ok(x) => x,
    Err(e) => return L2::Inconclusive(e),
  };
  let mut readers = Vec::new();
  for _ in 0..c.n_readers {
    match stack::connected(&ctx, "PULL", &ep, &[stack::i32opt(opt::RCVTIMEO, 3000), stack::i32opt(opt::RCVBUF, 8192)]).await {
      Ok(s) => readers.push(s),
      Err(e) => return L2::Inconclusive(e),
    }
  }
  let stalled = match stack::connected(&ctx, "PULL", &ep, &[stack::i32opt(opt::RCVHWM, 1), stack::i32opt(opt::RCVBUF, 8192)]).await {
    Ok(s) => s,
    Err(e) => return L2::Inconclusive(e),
  };
  tokio::time::sleep(Duration::from_millis(300)).await;
  let received = Arc::new(std::sync::atomic::AtomicU32::new(0));
  let mut tasks = Vec::new();
  for r in readers.iter().cloned() {
    let received = received.clone();
    tasks.push(tokio::spawn(async move {
      loop {
        match r.recv().await {
          Ok(_) => {
            received.fetch_add(1, std::sync::atomic::Ordering::SeqCst);
          }
          Err(rzmq::ZmqError::Timeout) => break,
          Err(_) => break,
        }
      }
    }));
  }
  let payload = fill(c.msg_kib as usize * 1024, 9);
  let mut accepted = 0u32;
  let mut verdict = L2::Ok;
  for i in 0..c.count {
    let t = Instant::now();
    let r = tokio::time::timeout(Duration::from_secs(4), push.send(rzmq::Msg::from_vec(payload.clone()))).await;
    let el = t.elapsed();
    match r {
      Ok(Ok(())) => accepted += 1,
      Ok(Err(e)) => {
        if el > Duration::from_millis(1500) || c.sndtimeo < 0 {
          verdict = L2::Violation(
            Violation::new("send_failed_while_peer_ready", format!("{}: send #{} failed after {:?} with {} although {} reading peers are draining", c.transport.name(), i, el, e, c.n_readers))
              .with("layer", "stack")
              .with("one_peer_stalled", true),
          );
          break;
        }
      }
      Err(_) => {
        verdict = L2::Violation(
          Violation::new("send_blocked_while_peer_ready", format!("{}: send #{} still blocked after 4 s while {} reading peers are idle and one peer never reads (SNDHWM 4, {} KiB)", c.transport.name(), i, c.n_readers, c.msg_kib))
            .with("layer", "stack")
            .with("one_peer_stalled", true),
        );
        break;
      }
    }
    if el > Duration::from_secs(3) {
      verdict = L2::Violation(
        Violation::new("send_blocked_while_peer_ready", format!("{}: send #{} took {:?} while {} reading peers are draining and one peer never reads", c.transport.name(), i, el, c.n_readers))
          .with("layer", "stack")
          .with("one_peer_stalled", true),
      );
      break;
    }
  }
  if matches!(verdict, L2::Ok) {
    // everything accepted, minus what the stalled peer may hold, must reach the readers
    tokio::time::sleep(Duration::from_millis(800)).await;
    let got = received.load(std::sync::atomic::Ordering::SeqCst);
    // what may legitimately sit on the way to the peer that never reads: its pipe (SNDHWM 4), up
    // to three write batches inside the sending session (being assembled, framed, in the egress
    // buffer; a batch closes at SNDBATCH_BYTES = 256 KiB or 128 messages), the receiving session's
    // batch and queue (RCVHWM 1), and the two kernel buffers. The point of the oracle is that the
    // amount does not grow with the number of messages sent, not the exact constant.
    let size = c.msg_kib as u32 * 1024;
    let per_batch = (256 * 1024 / size + 1).min(128);
    let stalled_may_hold = 4 + 1 + 3 * per_batch + per_batch + (4 * 8192 / size).max(1) + 2 + 8;
    if got + stalled_may_hold < accepted {
      verdict = L2::Violation(
        Violation::new("stalled_peer_hoards", format!("{} accepted, readers got {}, so the never-reading peer holds {} > its queue allowance {}", accepted, got, accepted - got, stalled_may_hold)).with("layer", "stack"),
      );
    }
  }
  for t in tasks {
    t.abort();
  }
  let _ = stalled.close().await;
  for r in &readers {
    let _ = r.close().await;
  }
  let _ = push.close().await;
  stack::term(&ctx).await;
  verdict
}

pub fn run(run: &mut Run) {
  run.rule = "L1 model: histories of 1..60 operations add(p) / remove(p) / set_room(p, 0|1..3|200) / send / burst(2..24) over up to 6 scripted connections driving the real OutgoingMessageOrchestrator (try_route_sync, then route_message when it reports full); L1 schedule: sender in route_message(wait_for_peer) vs. add_connection, all schedules up to the bound; L2: PUSH (SNDHWM 4) with 1..3 reading PULLs and one PULL that never reads, 64..256 KiB messages. Non-trivial = a full peer had to be skipped while another had room, or a peer was removed mid-stream (schedule: the sender reached the wait; L2: every case). Distinct = hash of the case".into();
  run.assumptions = vec![
    "rotation order is judged against a reference cursor model over the peers in connection order (first peer with room at or after the cursor; a leaving peer does not disturb the order of the others), plus its consequences (exactly one, ready-only, k-per-peer on stable all-ready windows, bounded pass-over)".into(),
    "one_stalled_peer: the never-reading peer may hold SNDHWM + RCVHWM + four write batches (256 KiB or 128 messages each) + kernel buffers + 8 messages; the bound is there to exclude growth with the number of messages sent".into(),
    "L1 histories are single-threaded".into(),
  ];
  let (n, bound, n_l2) = match run.tier {
    Tier::Quick => (15_000, 3usize, 3u32),
    Tier::Thorough => (500_000, 4usize, 40u32),
  };
  run.prop("orchestrator_model", n, 16, 2000, prop::collection::vec(op_strategy(), 1..60), prop_history);
  wait_window(run, bound);
  let stall = (prop::sample::select(vec![Transport::Tcp, Transport::Ipc]), 1u8..4, prop::sample::select(vec![64u16, 128, 256]), 60u16..160, prop::sample::select(vec![-1i32, 2000]))
    .prop_map(|(transport, n_readers, msg_kib, count, sndtimeo)| StallCase { transport, n_readers, msg_kib, count, sndtimeo });
  run.prop("one_stalled_peer", n_l2, 3, 2, stall, |c, rec: &mut CaseRec| {
    rec.nontrivial = true;
    rec.label(c.transport.name());
    let r = run_l2(Rt::Multi(2), Duration::from_secs(90), stall_body(c));
    l2_result(run, "one_stalled_peer", r)
  });
  stack::cleanup_scratch();
}
