//! C06, stack level: real PLAIN / CURVE / NOISE_XX sockets against a raw attacker peer.
//! Nothing the attacker writes may reach `recv()`, and the monitor must not report a
//! successful handshake for it. An honest rzmq peer with the right credentials then sends a
//! sentinel, which must be the first (and only) thing the application receives.

use crate::engine::{CaseRec, Run, Tier, Violation};
use crate::pair::{EndSpec, Mech};
use crate::stack::{self, l2_result, run_l2, RawListener, Rt, Transport, L2};
use crate::wire::{self, RefFrame};
use proptest::prelude::*;
use rzmq::socket::options as opt;
use rzmq::socket::SocketEvent;
use serde::{Deserialize, Serialize};
use std::time::Duration;

#[derive(Clone, Copy, Debug, Serialize, Deserialize, PartialEq, Eq)]
pub enum Shape {
  V2Greeting,
  NullGreetingReady,
  SameMechReadyOnly,
  PlainWrongPassword,
  DataBeforeAnything,
}

#[derive(Clone, Debug, Serialize, Deserialize)]
pub struct Case {
  pub mech: Mech,
  pub listener: bool,
  pub shape: Shape,
  pub allow_zmtp2: Option<bool>,
  pub transport: Transport,
  pub split_at: Option<u8>,
}

fn case_strategy() -> impl Strategy<Value = Case> + Clone {
  (
    prop::sample::select(vec![Mech::Plain, Mech::Curve, Mech::Noise]),
    any::<bool>(),
    prop::sample::select(vec![Shape::V2Greeting, Shape::V2Greeting, Shape::NullGreetingReady, Shape::SameMechReadyOnly, Shape::PlainWrongPassword, Shape::DataBeforeAnything]),
    prop_oneof![3 => Just(None), 1 => Just(Some(false))],
    prop::sample::select(vec![Transport::Tcp, Transport::Ipc]),
    prop::option::of(1u8..90),
  )
    .prop_map(|(mech, listener, shape, allow_zmtp2, transport, split_at)| Case { mech, listener, shape, allow_zmtp2, transport, split_at })
}

fn data(tag: &[u8]) -> Vec<u8> {
  let mut v = Vec::new();
  let mut b = b"ATTACKER-".to_vec();
  b.extend_from_slice(tag);
  wire::encode_frame(&RefFrame::data(b, false), &mut v);
  v
}

fn attacker_bytes(c: &Case, peer_type: &str) -> Vec<u8> {
  let as_server = !c.listener;
  let mut v = Vec::new();
  match c.shape {
    Shape::V2Greeting => {
      v.extend(wire::greeting_v2(peer_type));
      v.extend(wire::v2_identity_frame(b""));
      v.extend(data(b"v2"));
    }
    Shape::NullGreetingReady => {
      v.extend(wire::greeting_v3(0, "NULL", as_server));
      wire::encode_frame(&wire::ready(peer_type, None), &mut v);
      v.extend(data(b"null"));
    }
    Shape::SameMechReadyOnly => {
      v.extend(wire::greeting_v3(0, c.mech.name(), as_server));
      wire::encode_frame(&wire::ready(peer_type, None), &mut v);
      v.extend(data(b"ready-only"));
    }
    Shape::PlainWrongPassword => {
      v.extend(wire::greeting_v3(0, "PLAIN", as_server));
      wire::encode_frame(&wire::plain_hello(b"alice", b"wrong"), &mut v);
      wire::encode_frame(&wire::ready(peer_type, None), &mut v);
      v.extend(data(b"wrongpw"));
    }
    Shape::DataBeforeAnything => {
      v.extend(wire::greeting_v3(0, c.mech.name(), as_server));
      v.extend(data(b"early"));
      wire::encode_frame(&wire::ready(peer_type, None), &mut v);
    }
  }
  v
}

fn spec(c: &Case, ty: &str, server: bool) -> EndSpec {
  let mut s = EndSpec::new(ty, server, c.mech);
  s.plain = Some(("alice".into(), "the-right-password".into()));
  s.key_seed = if server { 9001 } else { 9002 };
  s.peer_key_seed = if server { None } else { Some(9001) };
  s.allow_zmtp2 = c.allow_zmtp2;
  s
}

async fn body(c: &Case) -> L2 {
  let ctx = match rzmq::Context::new() {
    Ok(x) => x,
    Err(e) => return L2::Inconclusive(e.to_string()),
  };
  // The socket under test is a DEALER (it can both be a listener and a connector and it receives).
  let mut opts = spec(c, "DEALER", c.listener).options();
  opts.push(stack::i32opt(opt::RCVTIMEO, 6000));
  opts.push(stack::i32opt(opt::RECONNECT_IVL, 50));
  opts.push(stack::i32opt(opt::HANDSHAKE_IVL, 1500));
  let sut = match ctx.socket(stack::stype("DEALER")) {
    Ok(s) => s,
    Err(e) => return L2::Inconclusive(e.to_string()),
  };
  if let Err(e) = stack::set_opts(&sut, &opts).await {
    return L2::Inconclusive(e);
  }
  let mon = match sut.monitor_default().await {
    Ok(m) => m,
    Err(e) => return L2::Inconclusive(e.to_string()),
  };
  let bytes = attacker_bytes(c, "DEALER");
  let mut raw;
  let honest;
  if c.listener {
    let ep = c.transport.fresh_endpoint();
    if let Err(e) = sut.bind(&ep).await {
      return L2::Inconclusive(e.to_string());
    }
    let ep = if c.transport == Transport::Tcp {
      String::from_utf8_lossy(&sut.get_option(opt::LAST_ENDPOINT).await.unwrap_or_default()).to_string()
    } else {
      ep
    };
    raw = match stack::raw_connect(&ep).await {
      Ok(r) => r,
      Err(e) => return L2::Inconclusive(e.to_string()),
    };
    write_split(&mut raw, &bytes, c.split_at).await;
    tokio::time::sleep(Duration::from_millis(300)).await;
    let mut hopts = spec(c, "DEALER", false).options();
    hopts.push(stack::i32opt(opt::SNDTIMEO, 5000));
    honest = match stack::connected(&ctx, "DEALER", &ep, &hopts).await {
      Ok(s) => s,
      Err(e) => return L2::Inconclusive(e),
    };
  } else {
    let (l, ep) = match RawListener::bind(c.transport).await {
      Ok(x) => x,
      Err(e) => return L2::Inconclusive(e.to_string()),
    };
    if let Err(e) = sut.connect(&ep).await {
      return L2::Inconclusive(e.to_string());
    }
    raw = match l.accept(Duration::from_secs(5)).await {
      Some(r) => r,
      None => return L2::Inconclusive("no connection at the raw listener".into()),
    };
    drop(l);
    write_split(&mut raw, &bytes, c.split_at).await;
    tokio::time::sleep(Duration::from_millis(300)).await;
    let mut hopts = spec(c, "DEALER", true).options();
    hopts.push(stack::i32opt(opt::SNDTIMEO, 5000));
    let (h, hep) = match stack::bound(&ctx, "DEALER", c.transport, &hopts).await {
      Ok(x) => x,
      Err(e) => return L2::Inconclusive(e),
    };
    if let Err(e) = sut.connect(&hep).await {
      return L2::Inconclusive(e.to_string());
    }
    honest = h;
  }
  if let Err(e) = honest.send(rzmq::Msg::from_static(b"HONEST-SENTINEL")).await {
    return L2::Inconclusive(format!("honest peer could not send: {}", e));
  }
  let first = sut.recv_multipart().await;
  let verdict = match first {
    Err(e) => L2::Inconclusive(format!("honest sentinel never arrived: {}", e)),
    Ok(frames) => {
      let bodies: Vec<Vec<u8>> = frames.iter().map(|m| m.data().unwrap_or(&[]).to_vec()).collect();
      if bodies.iter().any(|b| b.starts_with(b"ATTACKER-")) {
        L2::Violation(
          Violation::new("bypass", format!("{:?} {} {}: recv() returned attacker data {:?}", c.shape, c.mech.name(), if c.listener { "listener" } else { "connector" }, String::from_utf8_lossy(&bodies.concat())))
            .with("how", how(c))
            .with("mech", c.mech.name())
            .with("role", if c.listener { "listener" } else { "connector" })
            .with("layer", "stack"),
        )
      } else {
        // count successful handshakes reported so far: only the honest one is allowed
        let mut ok = 0;
        while let Ok(Ok(ev)) = tokio::time::timeout(Duration::from_millis(50), mon.recv()).await {
          if matches!(ev, SocketEvent::HandshakeSucceeded { .. }) {
            ok += 1;
          }
        }
        if ok > 1 {
          L2::Violation(
            Violation::new("bypass", format!("{:?} {}: monitor reported {} successful handshakes, only the honest peer may succeed", c.shape, c.mech.name(), ok))
              .with("how", how(c))
              .with("mech", c.mech.name())
              .with("role", if c.listener { "listener" } else { "connector" })
              .with("layer", "stack"),
          )
        } else {
          L2::Ok
        }
      }
    }
  };
  drop(raw);
  let _ = honest.close().await;
  let _ = sut.close().await;
  stack::term(&ctx).await;
  verdict
}

fn how(c: &Case) -> &'static str {
  match c.shape {
    Shape::V2Greeting => "v2_downgrade",
    Shape::NullGreetingReady => "other_mechanism",
    Shape::PlainWrongPassword => {
      if c.mech == Mech::Plain {
        "same_mechanism_without_credentials"
      } else {
        "other_mechanism"
      }
    }
    _ => "same_mechanism_without_credentials",
  }
}

async fn write_split(raw: &mut stack::RawStream, bytes: &[u8], split_at: Option<u8>) {
  match split_at {
    Some(k) if (k as usize) < bytes.len() => {
      let _ = raw.write_all(&bytes[..k as usize]).await;
      tokio::time::sleep(Duration::from_millis(40)).await;
      let _ = raw.write_all(&bytes[k as usize..]).await;
    }
    _ => {
      let _ = raw.write_all(bytes).await;
    }
  }
}

fn prop_case(run: &Run, c: &Case, rec: &mut CaseRec) -> Result<(), Violation> {
  // A PLAIN connector has no secret to verify: a "server" that sends WELCOME is legitimate.
  // None of the shapes sends WELCOME, so every shape is an attacker for every configuration.
  rec.nontrivial = true;
  rec.label(c.mech.name());
  rec.label(match c.shape {
    Shape::V2Greeting => "v2_greeting",
    Shape::NullGreetingReady => "null_greeting",
    Shape::SameMechReadyOnly => "ready_only",
    Shape::PlainWrongPassword => "plain_wrong_password",
    Shape::DataBeforeAnything => "data_first",
  });
  let r = run_l2(Rt::Multi(2), Duration::from_secs(40), body(c));
  l2_result(run, "stack", r)
}

pub fn run(run: &Run) {
  let n = match run.tier {
    Tier::Quick => 32,
    Tier::Thorough => 600,
  };
  run.prop("stack", n, 8, 8, case_strategy(), |c, rec| prop_case(run, c, rec));
  if run.undecided("stack") * 10 > n as u64 {
    run.inconclusive(format!("{} of {} stack cases could not be decided", run.undecided("stack"), n));
  }
  stack::cleanup_scratch();
}
