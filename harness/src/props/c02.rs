//! C02 — multipart messages stay whole, contiguous and correctly flagged.
//!
//! L1: `FrameBatch` operation sequences against a `Vec` model (the container every logical
//! message travels in). L2: several sending peers, a receiver that reads with recv(),
//! recv_multipart() or a generated mix, and an event script that attaches / detaches peers while a
//! message is half read. The frame stream handed to the application must decompose into whole
//! sent messages, contiguous, MORE on all but the last. Oversize messages (more frames than the
//! implementation supports) must be refused or close the connection: never a panic, never a
//! truncated delivery.

use crate::engine::{panic_log_len, panic_log_since, CaseRec, Run, Tier, Violation};
use crate::stack::{self, acc_frame, l2_result, parse_acc, run_l2, Rt, Transport, L2};
use proptest::prelude::*;
use rzmq::socket::options as opt;
use rzmq::socket::SocketEvent;
use rzmq::{FrameBatch, Msg, MsgFlags};
use serde::{Deserialize, Serialize};
use std::time::Duration;

// --- L1: FrameBatch vs Vec model -----------------------------------------------------------------

#[derive(Clone, Debug, Serialize, Deserialize)]
pub enum BOp {
  Push(u8),
  Pop,
  Insert(u8, u8),
  Remove(u8),
  Extend(Vec<u8>),
  CloneIt,
  IntoVecAndBack,
  SetFlagsLast,
}

fn bop_strategy() -> impl Strategy<Value = BOp> + Clone {
  prop_oneof![
    5 => any::<u8>().prop_map(BOp::Push),
    2 => Just(BOp::Pop),
    2 => (any::<u8>(), any::<u8>()).prop_map(|(i, v)| BOp::Insert(i, v)),
    2 => any::<u8>().prop_map(BOp::Remove),
    1 => prop::collection::vec(any::<u8>(), 0..6).prop_map(BOp::Extend),
    1 => Just(BOp::CloneIt),
    1 => Just(BOp::IntoVecAndBack),
    1 => Just(BOp::SetFlagsLast),
  ]
}

fn prop_batch(ops: &Vec<BOp>, rec: &mut CaseRec) -> Result<(), Violation> {
  let mut fb = FrameBatch::new();
  let mut model: Vec<(Vec<u8>, bool)> = Vec::new();
  let mk = |v: u8| Msg::from_vec(vec![v; (v % 5) as usize]);
  let mut crossed = false;
  for (i, op) in ops.iter().enumerate() {
    match op {
      BOp::Push(v) => {
        if model.len() < 255 {
          fb.push(mk(*v));
          model.push((vec![*v; (*v % 5) as usize], false));
        }
      }
      BOp::Pop => {
        let a = fb.pop().map(|m| m.data().unwrap_or(&[]).to_vec());
        let b = model.pop().map(|m| m.0);
        if a != b {
          return Err(Violation::new("framebatch_model", format!("step {}: pop returned {:?}, model {:?}", i, a, b)));
        }
      }
      BOp::Insert(idx, v) => {
        if model.len() < 255 {
          let at = *idx as usize % (model.len() + 1);
          fb.insert(at, mk(*v));
          model.insert(at, (vec![*v; (*v % 5) as usize], false));
        }
      }
      BOp::Remove(idx) => {
        if !model.is_empty() {
          let at = *idx as usize % model.len();
          let a = fb.remove(at).data().unwrap_or(&[]).to_vec();
          let b = model.remove(at).0;
          if a != b {
            return Err(Violation::new("framebatch_model", format!("step {}: remove({}) returned {:?}, model {:?}", i, at, a, b)));
          }
        }
      }
      BOp::Extend(vs) => {
        let room = 255 - model.len();
        let vs: Vec<u8> = vs.iter().copied().take(room).collect();
        fb.extend(vs.iter().map(|v| mk(*v)));
        model.extend(vs.iter().map(|v| (vec![*v; (*v % 5) as usize], false)));
      }
      BOp::CloneIt => {
        fb = fb.clone();
      }
      BOp::IntoVecAndBack => {
        let v: Vec<Msg> = Vec::from(fb);
        fb = FrameBatch::from(v);
      }
      BOp::SetFlagsLast => {
        if let Some(m) = fb.last_mut() {
          m.set_flags(MsgFlags::MORE);
        }
        if let Some(m) = model.last_mut() {
          m.1 = true;
        }
      }
    }
    if model.len() == 2 || model.len() == 3 {
      crossed = true;
    }
    let got: Vec<(Vec<u8>, bool)> = fb.iter().map(|m| (m.data().unwrap_or(&[]).to_vec(), m.is_more())).collect();
    if got != model || fb.len() != model.len() || fb.is_empty() != model.is_empty() {
      return Err(Violation::new("framebatch_model", format!("step {} ({:?}): container holds {} frames, model {}", i, op, fb.len(), model.len())));
    }
    if let (Some(f), Some(m)) = (fb.first(), model.first()) {
      if f.data().unwrap_or(&[]) != &m.0[..] {
        return Err(Violation::new("framebatch_model", format!("step {}: first() differs", i)));
      }
    }
  }
  rec.nontrivial = crossed;
  rec.label_if(crossed, "crossed_inline_to_heap_boundary");
  Ok(())
}

// --- L2: read styles and attach/detach events ---------------------------------------------------------

#[derive(Clone, Debug, Serialize, Deserialize)]
pub enum Step {
  /// peer i sends a message with these frame sizes; `premore` pre-sets MORE on every frame the
  /// way a careless caller would (the socket has to normalise or honour it consistently)
  Send { peer: u8, sizes: Vec<u16>, premore: bool },
  /// read k frames with recv()
  ReadFrames(u8),
  ReadMultipart,
  /// close peer i's socket
  Detach(u8),
  /// a fresh peer connects (and is used by later Send steps)
  Attach,
}

#[derive(Clone, Copy, Debug, Serialize, Deserialize, PartialEq, Eq)]
pub enum RecvKind {
  Pull,
  Sub,
  Dealer,
  Router,
}

#[derive(Clone, Debug, Serialize, Deserialize)]
pub struct Case {
  pub kind: RecvKind,
  pub transport: Transport,
  pub rt: Rt,
  pub n_peers: u8,
  pub steps: Vec<Step>,
  /// frames are handed to send_multipart() with no MORE flag set at all (the plain way to call
  /// it); otherwise the harness sets MORE on all but the last itself
  #[serde(default)]
  pub plain_frames: bool,
  /// ROUTER receiver only: the DEALER peers run with AUTO_DELIMITER off and put the empty
  /// delimiter in front of their frames themselves
  #[serde(default)]
  pub manual_dealers: bool,
}

fn sizes_strategy() -> impl Strategy<Value = Vec<u16>> + Clone {
  let sz = prop_oneof![3 => Just(0u16), 3 => 1u16..40, 1 => Just(255u16), 1 => Just(256u16), 1 => 257u16..4096];
  prop_oneof![
    6 => prop::collection::vec(sz.clone(), 1..6),
    1 => prop::collection::vec(sz, 17..18),
  ]
}

fn case_strategy() -> impl Strategy<Value = Case> + Clone {
  let step = prop_oneof![
    6 => (0u8..3, sizes_strategy(), prop::bool::weighted(0.15)).prop_map(|(peer, sizes, premore)| Step::Send { peer, sizes, premore }),
    5 => (1u8..4).prop_map(Step::ReadFrames),
    3 => Just(Step::ReadMultipart),
    2 => (0u8..3).prop_map(Step::Detach),
    1 => Just(Step::Attach),
  ];
  (
    prop::sample::select(vec![RecvKind::Pull, RecvKind::Sub, RecvKind::Dealer, RecvKind::Router]),
    prop::sample::select(vec![Transport::Tcp, Transport::Ipc, Transport::Inproc]),
    prop::sample::select(vec![Rt::Current, Rt::Multi(2)]),
    1u8..4,
    prop::collection::vec(step, 4..30),
    (any::<bool>(), prop::bool::weighted(0.35)),
  )
    .prop_map(|(kind, transport, rt, n_peers, steps, (plain_frames, manual))| Case { kind, transport, rt, n_peers, steps, plain_frames, manual_dealers: manual && kind == RecvKind::Router })
}

fn types(k: RecvKind) -> (&'static str, &'static str) {
  match k {
    RecvKind::Pull => ("PULL", "PUSH"),
    RecvKind::Sub => ("SUB", "PUB"),
    RecvKind::Dealer => ("DEALER", "DEALER"),
    RecvKind::Router => ("ROUTER", "DEALER"),
  }
}

struct Peer {
  sock: rzmq::Socket,
  id: u16,
  next_seq: u32,
  alive: bool,
}

async fn connect_peer(ctx: &rzmq::Context, ty: &str, ep: &str, id: u16, tr: Transport, manual: bool, probe_via: Option<&rzmq::Socket>) -> Result<Peer, String> {
  let s = ctx.socket(stack::stype(ty)).map_err(|e| e.to_string())?;
  stack::set_opts(&s, &[stack::i32opt(opt::SNDTIMEO, 3000), stack::i32opt(opt::LINGER, 500)]).await?;
  if manual {
    s.set_option_raw(opt::AUTO_DELIMITER, &0i32.to_ne_bytes()).await.map_err(|e| e.to_string())?;
  }
  let mon = s.monitor_default().await.map_err(|e| e.to_string())?;
  s.connect(ep).await.map_err(|e| e.to_string())?;
  if tr == Transport::Inproc {
    tokio::time::sleep(Duration::from_millis(40)).await;
  } else if stack::wait_event(&mon, Duration::from_secs(5), |e| matches!(e, SocketEvent::HandshakeSucceeded { .. })).await.is_none() {
    return Err("no HandshakeSucceeded".into());
  }
  // PUB: the subscription has to reach this publisher before anything it sends counts (the
  // late-joiner window is not this property's subject). While the receiver is idle this is
  // established with probe messages; in the middle of a script (receiver possibly inside a
  // message) a generous pause has to do.
  if ty == "PUB" {
    match probe_via {
      Some(rx) => {
        let mut through = false;
        for _ in 0..300 {
          let _ = s.send(Msg::from_static(b"\xF1probe")).await;
          if let Ok(Ok(_)) = tokio::time::timeout(Duration::from_millis(20), rx.recv()).await {
            through = true;
            break;
          }
        }
        if !through {
          return Err("subscription never reached the publisher".into());
        }
        while let Ok(Ok(_)) = tokio::time::timeout(Duration::from_millis(120), rx.recv()).await {}
      }
      None => tokio::time::sleep(Duration::from_millis(400)).await,
    }
  }
  Ok(Peer { sock: s, id, next_seq: 0, alive: true })
}

/// What the application saw: one entry per frame handed over.
#[derive(Clone, Debug)]
struct Seen {
  body: Vec<u8>,
  more: bool,
  /// index of the API call that produced it and whether that call was recv_multipart
  call: usize,
  multipart_call: bool,
}

async fn body(c: &Case) -> L2 {
  let ctx = match rzmq::Context::new() {
    Ok(x) => x,
    Err(e) => return L2::Inconclusive(e.to_string()),
  };
  let panics_before = panic_log_len();
  let (rtype, stype) = types(c.kind);
  let (receiver, ep) = match stack::bound(&ctx, rtype, c.transport, &[stack::i32opt(opt::RCVTIMEO, 400), stack::i32opt(opt::RCVHWM, 1000)]).await {
    Ok(x) => x,
    Err(e) => return L2::Inconclusive(e),
  };
  if c.kind == RecvKind::Sub {
    let _ = receiver.set_option_raw(opt::SUBSCRIBE, b"").await;
  }
  let mut peers: Vec<Peer> = Vec::new();
  for i in 0..c.n_peers {
    match connect_peer(&ctx, stype, &ep, i as u16 + 1, c.transport, c.manual_dealers, Some(&receiver)).await {
      Ok(p) => peers.push(p),
      Err(e) => return L2::Inconclusive(e),
    }
  }
  let mut next_id = c.n_peers as u16 + 1;
  // what was sent: (peer id, seq) -> frame count ; and whether the peer stayed connected
  let mut sent: Vec<(u16, u32, usize)> = Vec::new();
  let mut seen: Vec<Seen> = Vec::new();
  let mut call_no = 0usize;
  let mut detach_while_partial = false;
  let mut mixed = (false, false);

  let in_partial = |seen: &Vec<Seen>| seen.last().map(|s| s.more).unwrap_or(false);

  for st in &c.steps {
    match st {
      Step::Send { peer, sizes, premore } => {
        let alive: Vec<usize> = peers.iter().enumerate().filter(|(_, p)| p.alive).map(|(i, _)| i).collect();
        if alive.is_empty() {
          continue;
        }
        let pi = alive[*peer as usize % alive.len()];
        let p = &mut peers[pi];
        let seq = p.next_seq;
        p.next_seq += 1;
        let n = sizes.len();
        let frames: Vec<Msg> = sizes
          .iter()
          .enumerate()
          .map(|(i, sz)| {
            let mut m = Msg::from_vec(acc_frame(p.id, seq, i as u16, n as u16, *sz as usize + stack::ACC_OVERHEAD));
            if (!c.plain_frames && i + 1 < n) || (*premore && n > 1) {
              m.set_flags(MsgFlags::MORE);
            }
            m
          })
          .collect();
        let frames = if c.manual_dealers {
          // manual framing: the application supplies the delimiter
          let mut d = Msg::new();
          if !c.plain_frames {
            d.set_flags(MsgFlags::MORE);
          }
          std::iter::once(d).chain(frames).collect::<Vec<Msg>>()
        } else {
          frames
        };
        match p.sock.send_multipart(frames).await {
          Ok(()) => sent.push((p.id, seq, n)),
          Err(e) => return L2::Inconclusive(format!("send failed: {}", e)),
        }
        // let it reach the receiver's queue so that later partial reads really are partial
        tokio::time::sleep(Duration::from_millis(15)).await;
      }
      Step::ReadFrames(k) => {
        mixed.0 = true;
        for _ in 0..*k {
          call_no += 1;
          match receiver.recv().await {
            Ok(m) => seen.push(Seen { body: m.data().unwrap_or(&[]).to_vec(), more: m.is_more(), call: call_no, multipart_call: false }),
            Err(_) => break,
          }
        }
      }
      Step::ReadMultipart => {
        mixed.1 = true;
        call_no += 1;
        if let Ok(frames) = receiver.recv_multipart().await {
          for m in frames {
            seen.push(Seen { body: m.data().unwrap_or(&[]).to_vec(), more: m.is_more(), call: call_no, multipart_call: true });
          }
        }
      }
      Step::Detach(i) => {
        let alive: Vec<usize> = peers.iter().enumerate().filter(|(_, p)| p.alive).map(|(i, _)| i).collect();
        if alive.len() <= 1 {
          continue;
        }
        let pi = alive[*i as usize % alive.len()];
        // the peer whose message is half read may be the one that goes away: messages are queued
        // whole, so the frames already owed to the application still have to come out
        if in_partial(&seen) {
          detach_while_partial = true;
        }
        // make sure everything this peer sent has reached the receiver before it goes away
        tokio::time::sleep(Duration::from_millis(40)).await;
        let _ = peers[pi].sock.close().await;
        peers[pi].alive = false;
        tokio::time::sleep(Duration::from_millis(60)).await;
      }
      Step::Attach => {
        if peers.len() < 6 {
          match connect_peer(&ctx, stype, &ep, next_id, c.transport, c.manual_dealers, None).await {
            Ok(p) => peers.push(p),
            Err(e) => return L2::Inconclusive(e),
          }
          next_id += 1;
        }
      }
    }
  }
  // drain the rest frame by frame
  loop {
    call_no += 1;
    match receiver.recv().await {
      Ok(m) => seen.push(Seen { body: m.data().unwrap_or(&[]).to_vec(), more: m.is_more(), call: call_no, multipart_call: false }),
      Err(_) => break,
    }
  }
  let v = |check: &str, d: String| {
    L2::Violation(
      Violation::new(check, d)
        .with("layer", "stack")
        .with("receiver", rtype)
        .with("style", if mixed.0 && mixed.1 { "mixed" } else if mixed.1 { "recv_multipart" } else { "recv" })
        .with("detach_while_partial", detach_while_partial),
    )
  };
  let new_panics: Vec<_> = panic_log_since(panics_before).into_iter().filter(|(_, _, loc)| !loc.contains("harness/src")).collect();
  if let Some((_, msg, loc)) = new_panics.first() {
    return L2::Violation(Violation::new("panic", format!("{} at {}", msg.chars().take(120).collect::<String>(), loc)).with("where", loc.clone()).with("layer", "stack"));
  }
  // --- parse the stream into messages ---
  let prefix = if c.kind == RecvKind::Router { 1 } else { 0 }; // identity frame ahead of each message
  let mut i = 0;
  let mut received: Vec<(u16, u32)> = Vec::new();
  while i < seen.len() {
    // identity frame(s)
    for _ in 0..prefix {
      if i >= seen.len() {
        break;
      }
      if !seen[i].more {
        return v("flags_wrong", format!("frame {}: ROUTER identity frame without MORE", i));
      }
      i += 1;
    }
    if i >= seen.len() {
      return v("truncated_message_delivered", "stream ends after an identity frame".to_string());
    }
    let first = match parse_acc(&seen[i].body) {
      Ok(a) => a,
      Err(e) => return v("corrupted_frame", format!("frame {}: {}", i, e)),
    };
    if first.frame_idx != 0 {
      return v(
        "not_contiguous",
        format!("frame {} is part {}/{} of message ({}, {}) but a message start was expected (previous frames: {:?})", i, first.frame_idx, first.frame_cnt, first.sender, first.msg_seq, seen[i.saturating_sub(3)..i].iter().map(|s| parse_acc(&s.body).map(|a| (a.sender, a.msg_seq, a.frame_idx)).ok()).collect::<Vec<_>>()),
      );
    }
    let cnt = first.frame_cnt as usize;
    for k in 0..cnt {
      if i + k >= seen.len() {
        // a message whose first frame was handed out has to be finished, whether or not its
        // sender is still connected (it was queued whole)
        let still_connected = peers.iter().any(|p| p.id == first.sender && p.alive);
        return v("truncated_message_delivered", format!("message ({}, {}): only {} of {} frames were ever delivered (sender still connected: {})", first.sender, first.msg_seq, k, cnt, still_connected));
      }
      let a = match parse_acc(&seen[i + k].body) {
        Ok(a) => a,
        Err(e) => return v("corrupted_frame", format!("frame {}: {}", i + k, e)),
      };
      if (a.sender, a.msg_seq, a.frame_idx as usize, a.frame_cnt as usize) != (first.sender, first.msg_seq, k, cnt) {
        return v(
          "not_contiguous",
          format!("message ({}, {}) frame {} of {}: got frame {}/{} of message ({}, {}) instead", first.sender, first.msg_seq, k, cnt, a.frame_idx, a.frame_cnt, a.sender, a.msg_seq),
        );
      }
      let want_more = k + 1 < cnt;
      if seen[i + k].more != want_more {
        return v("flags_wrong", format!("message ({}, {}) frame {} of {}: MORE={} ", first.sender, first.msg_seq, k, cnt, seen[i + k].more));
      }
    }
    // recv_multipart must not return a strict subset: a multipart call that starts at a message
    // boundary has to cover the whole message
    if seen[i].multipart_call {
      let call = seen[i].call;
      let covered = seen[i..].iter().take(cnt).filter(|s| s.call == call).count();
      if covered < cnt.min(seen.len() - i) {
        return v("recv_multipart_subset", format!("recv_multipart returned {} of {} frames of message ({}, {})", covered, cnt, first.sender, first.msg_seq));
      }
    }
    received.push((first.sender, first.msg_seq));
    i += cnt;
  }
  // completeness for peers that stayed connected (PUB/SUB: every message published after the
  // handshake wait is expected too)
  for (id, seq, _) in &sent {
    let stayed = peers.iter().any(|p| p.id == *id && p.alive);
    if stayed && !received.contains(&(*id, *seq)) {
      return v("message_lost", format!("message ({}, {}) from a peer that stayed connected never came out", id, seq));
    }
  }
  for p in &peers {
    if p.alive {
      let _ = p.sock.close().await;
    }
  }
  let _ = receiver.close().await;
  stack::term(&ctx).await;
  L2::Ok
}

// --- oversize messages at the sender -----------------------------------------------------------------------

#[derive(Clone, Debug, Serialize, Deserialize)]
pub struct BigCase {
  pub sender: String,
  pub frames: u16,
  pub transport: Transport,
}

async fn big_body(c: &BigCase) -> L2 {
  let panics_before = panic_log_len();
  let ctx = match rzmq::Context::new() {
    Ok(x) => x,
    Err(e) => return L2::Inconclusive(e.to_string()),
  };
  let rtype = match c.sender.as_str() {
    "PUSH" => "PULL",
    "PUB" => "SUB",
    "DEALER" => "ROUTER",
    _ => "DEALER",
  };
  let mut ropts = vec![stack::i32opt(opt::RCVTIMEO, 800)];
  if c.sender == "ROUTER" {
    ropts.push((opt::ROUTING_ID, b"peer".to_vec()));
  }
  let (receiver, ep) = match stack::bound(&ctx, rtype, c.transport, &ropts).await {
    Ok(x) => x,
    Err(e) => return L2::Inconclusive(e),
  };
  if rtype == "SUB" {
    let _ = receiver.set_option_raw(opt::SUBSCRIBE, b"").await;
  }
  let p = match connect_peer(&ctx, &c.sender, &ep, 1, c.transport, false, None).await {
    Ok(p) => p,
    Err(e) => return L2::Inconclusive(e),
  };
  let n = c.frames as usize;
  let mut frames: Vec<Msg> = (0..n)
    .map(|i| {
      let mut m = Msg::from_vec(acc_frame(1, 0, i as u16, n as u16, stack::ACC_OVERHEAD + 3));
      if i + 1 < n {
        m.set_flags(MsgFlags::MORE);
      }
      m
    })
    .collect();
  if c.sender == "ROUTER" {
    let mut id = Msg::from_static(b"peer");
    id.set_flags(MsgFlags::MORE);
    frames.insert(0, id);
  }
  let sock = p.sock.clone();
  let res = tokio::spawn(async move { sock.send_multipart(frames).await }).await;
  let v = |check: &str, d: String| L2::Violation(Violation::new(check, d).with("layer", "stack").with("sender", c.sender.clone()).with("frames", c.frames as u64));
  let accepted = match res {
    Err(e) if e.is_panic() => {
      let loc = panic_log_since(panics_before).last().map(|(_, m, l)| format!("{} at {}", m.chars().take(80).collect::<String>(), l)).unwrap_or_default();
      return L2::Violation(
        Violation::new("panic", format!("{} send_multipart with {} frames panicked in the caller: {}", c.sender, n, loc))
          .with("where", panic_log_since(panics_before).last().map(|(_, _, l)| l.clone()).unwrap_or_default())
          .with("layer", "stack"),
      );
    }
    Err(_) => return L2::Inconclusive("join error".into()),
    Ok(r) => r.is_ok(),
  };
  // whatever was (or was not) accepted: the receiver sees the whole message or nothing of it
  let mut got: Vec<Vec<u8>> = Vec::new();
  if let Ok(frames) = receiver.recv_multipart().await {
    got = frames.iter().map(|m| m.data().unwrap_or(&[]).to_vec()).collect();
  }
  let skip = if rtype == "ROUTER" { 1 } else { 0 };
  let payload: Vec<&Vec<u8>> = got.iter().skip(skip).collect();
  if !payload.is_empty() && payload.len() != n {
    return v("truncated_message_delivered", format!("{} frames sent (accepted={}), {} payload frames delivered", n, accepted, payload.len()));
  }
  if accepted && payload.is_empty() && n <= 254 {
    return v("message_lost", format!("{} frames accepted, nothing delivered", n));
  }
  // the connection must still work for an ordinary message afterwards (or have been closed
  // cleanly: then a send fails, which is fine) - and no task may have panicked
  let _ = p.sock.close().await;
  let _ = receiver.close().await;
  stack::term(&ctx).await;
  L2::Ok
}

pub fn run(run: &mut Run) {
  run.rule = "L1: FrameBatch operation sequences (push/pop/insert/remove/extend/clone/Vec round trip, up to 255 frames) against a Vec model. L2: receiver in {PULL, SUB, DEALER, ROUTER} over tcp/ipc/inproc with 1..3 sending peers and a script of 4..29 steps from {peer i sends a message of 1..5 (or 17) frames of sizes {0,1..39,255,256,..4096} (15% with MORE pre-set on every frame), read k frames with recv(), recv_multipart(), detach a peer (also the one whose message is half read), attach a new peer}; oversize: send_multipart with 254..300 frames from PUSH/PUB/DEALER/ROUTER. Non-trivial = a message of at least 3 frames and (mixed read styles or a detach while a message is partially read). Distinct = hash of the case".into();
  run.assumptions = vec![
    "application frames never carry the COMMAND flag; ROUTER's first frame is the identity".into(),
    "whole messages of a peer that detached may be missing; a message whose first frame was delivered must always be completed".into(),
    "REQ/REP multi-frame replies are exercised in C10/C11 (REQ.recv() keeping only the first frame is recorded there)".into(),
  ];
  let (n1, n2, n3) = match run.tier {
    Tier::Quick => (20_000, 120, 20),
    Tier::Thorough => (500_000, 2500, 200),
  };
  run.prop("framebatch_model", n1, 16, 2000, prop::collection::vec(bop_strategy(), 1..80), prop_batch);
  run.prop("read_styles", n2, 12, 20, case_strategy(), |c, rec: &mut CaseRec| {
    let big = c.steps.iter().any(|s| matches!(s, Step::Send { sizes, .. } if sizes.len() >= 3));
    let has_frames = c.steps.iter().any(|s| matches!(s, Step::ReadFrames(_)));
    let has_multi = c.steps.iter().any(|s| matches!(s, Step::ReadMultipart));
    let has_detach = c.steps.iter().any(|s| matches!(s, Step::Detach(_))) && c.n_peers > 1;
    rec.nontrivial = big && ((has_frames && has_multi) || has_detach);
    rec.label(types(c.kind).0);
    rec.label(c.transport.name());
    rec.label_if(c.plain_frames, "frames_without_preset_more");
    rec.label_if(c.manual_dealers, "manual_framing_dealer_peers");
    rec.label_if(has_frames && has_multi, "mixed_read_style");
    rec.label_if(has_detach, "detach_event");
    let r = run_l2(c.rt, Duration::from_secs(90), body(c));
    l2_result(run, "read_styles", r)
  });
  let big = (prop::sample::select(vec!["PUSH", "PUB", "DEALER", "ROUTER"]), prop::sample::select(vec![254u16, 255, 256, 257, 300]), prop::sample::select(vec![Transport::Tcp, Transport::Inproc]))
    .prop_map(|(s, frames, transport)| BigCase { sender: s.to_string(), frames, transport });
  run.prop("oversize_at_sender", n3, 4, 4, big, |c, rec: &mut CaseRec| {
    rec.nontrivial = c.frames >= 255;
    rec.label(if c.frames > 255 { "over_255" } else { "at_or_below_255" });
    let r = run_l2(Rt::Multi(2), Duration::from_secs(60), big_body(c));
    l2_result(run, "oversize_at_sender", r)
  });
  if run.undecided("read_styles") * 10 > n2 as u64 {
    run.inconclusive(format!("{} of {} read_styles cases could not be decided", run.undecided("read_styles"), n2));
  }
  stack::cleanup_scratch();
}
