//! C08 — a receiver never sleeps while a message is queued for it (no lost wake-ups).
//!
//! The real `ReadyPipeQueue` is driven by the deterministic thread scheduler: producers and
//! consumers are OS threads of which exactly one runs at a time; they yield at the schedule
//! points compiled into send / try_send / try_send_batch / pop / try_pop (between the channel
//! write and the counter update, between dequeue and re-arm, ...) and whenever a future is
//! Pending. Small scenarios are enumerated exhaustively up to a preemption bound; larger ones are
//! sampled with random decision lists.

use crate::engine::{hash_of, CaseRec, Run, Tier, Violation};
use crate::sched::{self, Aborted, Decision, StepInfo, TaskCtx};
use proptest::prelude::*;
use rzmq::verif::{Rpq, RpqSender, RpqTrySendError};
use serde::{Deserialize, Serialize};
use serde_json::json;
use std::collections::VecDeque;
use std::sync::{Arc, Mutex};

#[derive(Clone, Debug, Serialize, Deserialize)]
pub enum POp {
  Send,
  TrySend,
  Batch(u8),
}

#[derive(Clone, Debug, Serialize, Deserialize)]
pub enum COp {
  Pop,
  TryPop,
  /// start a pop, drop it at its first Pending, then pop for real
  CancelThenPop,
}

#[derive(Clone, Debug, Serialize, Deserialize)]
pub struct Scenario {
  /// capacity per pipe
  pub pipes: Vec<u8>,
  /// producer i feeds pipe `producers[i].0`
  pub producers: Vec<(u8, Vec<POp>)>,
  /// consumer styles; items are split among consumers
  pub consumers: Vec<COp>,
  /// register pipe index (last pipe) only after the first producer op ran (late attach)
  pub late_attach: bool,
  /// producer i deregisters its pipe (the connection is detached) right after its last op: what
  /// it committed before is still owed to the consumers
  #[serde(default)]
  pub detach: Vec<bool>,
}

impl Scenario {
  fn total_items(&self) -> usize {
    self.producers.iter().map(|(_, ops)| ops.iter().map(|o| if let POp::Batch(n) = o { *n as usize } else { 1 }).sum::<usize>()).sum()
  }
}

#[derive(Clone, Debug, Serialize, Deserialize)]
pub struct Case {
  pub sc: Scenario,
  pub schedule: Vec<Decision>,
}

struct Outcome {
  res: sched::RunResult,
  inv_err: Option<String>,
  popped: Vec<(usize, usize, u32)>, // (consumer, pipe, value)
}

fn execute(sc: &Scenario, schedule: &[Decision]) -> Outcome {
  let q: Arc<Rpq<u32>> = Arc::new(Rpq::new(64));
  let n_pipes = sc.pipes.len();
  let senders: Arc<Mutex<Vec<Option<Arc<RpqSender<u32>>>>>> = Arc::new(Mutex::new(vec![None; n_pipes]));
  for (i, cap) in sc.pipes.iter().enumerate() {
    if sc.late_attach && i + 1 == n_pipes && n_pipes > 1 {
      continue;
    }
    senders.lock().unwrap()[i] = Some(Arc::new(q.register_pipe(100 + i, *cap as usize, 1)));
  }
  let popped: Arc<Mutex<Vec<(usize, usize, u32)>>> = Arc::new(Mutex::new(Vec::new()));
  let total = sc.total_items();
  let remaining = Arc::new(std::sync::atomic::AtomicUsize::new(total));
  let mut tasks: Vec<Box<dyn FnOnce(TaskCtx) -> Result<(), Aborted> + Send>> = Vec::new();
  for (pi, (pipe, ops)) in sc.producers.iter().enumerate() {
    let pipe = *pipe as usize % n_pipes;
    let ops = ops.clone();
    let q = q.clone();
    let senders = senders.clone();
    let cap = sc.pipes[pipe] as usize;
    let detach = sc.detach.get(pi).copied().unwrap_or(false);
    tasks.push(Box::new(move |ctx: TaskCtx| {
      // late attach: the pipe is registered by its own producer while traffic already flows
      let existing = senders.lock().unwrap()[pipe].clone();
      let tx = match existing {
        Some(t) => t,
        None => {
          ctx.point("late_attach:before_register")?;
          let t = Arc::new(q.register_pipe(100 + pipe, cap, 1));
          senders.lock().unwrap()[pipe] = Some(t.clone());
          t
        }
      };
      let mut seq = 0u32;
      let mut next = || {
        let v = ((pi as u32) << 16) | seq;
        seq += 1;
        v
      };
      for op in ops {
        match op {
          POp::Send => {
            let v = next();
            let _ = ctx.block_on(tx.send(v))?;
          }
          POp::TrySend => {
            let mut v = next();
            loop {
              match tx.try_send(v) {
                Ok(()) => break,
                Err(RpqTrySendError::Full(back)) => {
                  v = back;
                  ctx.yield_now("try_send:full_retry")?;
                }
                Err(RpqTrySendError::Closed(_)) => break,
              }
            }
          }
          POp::Batch(n) => {
            let mut items: VecDeque<u32> = (0..n).map(|_| next()).collect();
            while !items.is_empty() {
              tx.try_send_batch(&mut items);
              if !items.is_empty() {
                ctx.yield_now("batch:full_retry")?;
              }
            }
          }
        }
      }
      if detach {
        ctx.point("detach:before_deregister")?;
        q.deregister_pipe(100 + pipe);
        drop(tx);
        senders.lock().unwrap()[pipe] = None;
        ctx.point("detach:deregistered")?;
      }
      Ok(())
    }));
  }
  let n_prod = sc.producers.len();
  for (ci, style) in sc.consumers.iter().enumerate() {
    let q = q.clone();
    let popped = popped.clone();
    let remaining = remaining.clone();
    let style = style.clone();
    tasks.push(Box::new(move |ctx: TaskCtx| {
      use std::sync::atomic::Ordering::SeqCst;
      loop {
        // claim one item to receive; stop when all are claimed
        let mut cur = remaining.load(SeqCst);
        loop {
          if cur == 0 {
            return Ok(());
          }
          match remaining.compare_exchange(cur, cur - 1, SeqCst, SeqCst) {
            Ok(_) => break,
            Err(now) => cur = now,
          }
        }
        let got = match style {
          COp::Pop => ctx.block_on(q.pop())?.ok(),
          COp::TryPop => loop {
            match q.try_pop() {
              Some(x) => break Some(x),
              None => ctx.yield_now("try_pop:empty_retry")?,
            }
          },
          COp::CancelThenPop => {
            match ctx.poll_then_drop(q.pop(), 1)? {
              Some(r) => r.ok(),
              None => ctx.block_on(q.pop())?.ok(),
            }
          }
        };
        if let Some((pipe_id, v)) = got {
          popped.lock().unwrap().push((ci, pipe_id - 100, v));
        }
      }
    }));
  }
  let _ = n_prod;
  let senders_inv = senders.clone();
  let (res, inv_err) = sched::run(tasks, schedule, 4000, move || {
    for (i, s) in senders_inv.lock().unwrap().iter().enumerate() {
      if let Some(s) = s {
        let (r, qd) = (s.reserved_count(), s.queued_count());
        if r < qd {
          return Err(format!("pipe {}: reserved {} < queued {}", i, r, qd));
        }
      }
    }
    Ok(())
  });
  let popped = popped.lock().unwrap().clone();
  Outcome { res, inv_err, popped }
}

fn judge(sc: &Scenario, schedule: &[Decision], o: &Outcome) -> Result<(), Violation> {
  let trace = |o: &Outcome| -> String {
    let t: Vec<String> = o.res.steps.iter().rev().take(14).rev().map(|s| format!("t{}@{}", s.ran, s.label)).collect();
    t.join(" ")
  };
  if let Some((task, msg)) = o.res.panicked.first() {
    return Err(Violation::new("panic_in_queue", format!("task {} panicked: {} (schedule {:?}; tail of trace: {})", task, msg, schedule, trace(o))).with("where", crate::engine::last_panic_location()));
  }
  if let Some(e) = &o.inv_err {
    return Err(Violation::new("counter_invariant", format!("{} (schedule {:?}; tail of trace: {})", e, schedule, trace(o))));
  }
  if o.res.deadlock {
    return Err(
      Violation::new(
        "lost_wakeup",
        format!("all tasks blocked with work outstanding: stuck at {:?}; {} of {} items received (schedule {:?}; tail of trace: {})", o.res.stuck_at, o.popped.len(), sc.total_items(), schedule, trace(o)),
      )
      .with("consumers", sc.consumers.len() as u64),
    );
  }
  if o.res.hit_step_limit {
    return Ok(()); // undecided, counted by the caller
  }
  // exactly once
  let mut vals: Vec<u32> = o.popped.iter().map(|p| p.2).collect();
  vals.sort_unstable();
  let mut want: Vec<u32> = Vec::new();
  for (pi, (_, ops)) in sc.producers.iter().enumerate() {
    let n: usize = ops.iter().map(|o| if let POp::Batch(n) = o { *n as usize } else { 1 }).sum();
    for s in 0..n {
      want.push(((pi as u32) << 16) | s as u32);
    }
  }
  want.sort_unstable();
  if vals != want {
    return Err(Violation::new("not_exactly_once", format!("received {:?}, sent {:?} (schedule {:?})", vals, want, schedule)));
  }
  // per-producer FIFO (each producer feeds one pipe) — only decidable with one consumer
  if sc.consumers.len() == 1 {
    for pi in 0..sc.producers.len() {
      let seq: Vec<u32> = o.popped.iter().map(|p| p.2).filter(|v| (v >> 16) as usize == pi).collect();
      if seq.windows(2).any(|w| w[0] > w[1]) {
        return Err(Violation::new("pipe_order", format!("producer {}: received order {:?} (schedule {:?})", pi, seq, schedule)));
      }
    }
  }
  Ok(())
}

fn preempts_in_window(steps: &[StepInfo], schedule: &[Decision]) -> bool {
  // a decision taken while the preempted task stood between a channel write and its counter
  // update, or between a dequeue and the re-arm
  schedule.iter().any(|(step, _)| {
    steps.iter().find(|s| s.step + 1 == *step || s.step == *step).map(|s| {
      matches!(s.label, "send:written" | "try_send:written" | "batch:written" | "pop:took_item" | "pop:decremented_queued" | "pop:before_rearm" | "try_pop:took_item" | "try_pop:decremented_queued" | "try_pop:before_rearm" | "pop:took_ready_entry")
    })
    .unwrap_or(false)
  })
}

fn scenario_strategy() -> impl Strategy<Value = Scenario> + Clone {
  let pop = prop_oneof![3 => Just(POp::Send), 2 => Just(POp::TrySend), 2 => (1u8..4).prop_map(POp::Batch)];
  let cop = prop_oneof![3 => Just(COp::Pop), 1 => Just(COp::TryPop), 2 => Just(COp::CancelThenPop)];
  (
    prop::collection::vec(1u8..3, 1..4),
    prop::collection::vec((0u8..3, prop::collection::vec(pop, 1..4)), 1..4),
    prop::collection::vec(cop, 1..3),
    prop::bool::weighted(0.25),
    prop::collection::vec(prop::bool::weighted(0.3), 3),
  )
    .prop_map(|(pipes, producers, consumers, late_attach, detach)| {
      // one producer per pipe at most (the queue is single-producer per pipe)
      let mut used = std::collections::HashSet::new();
      let n = pipes.len();
      let producers: Vec<(u8, Vec<POp>)> = producers.into_iter().filter(|(p, _)| used.insert(*p as usize % n)).collect();
      Scenario { pipes, producers, consumers, late_attach, detach }
    })
}

fn case_strategy() -> impl Strategy<Value = Case> + Clone {
  (scenario_strategy(), prop::collection::vec((0u32..120, 0u8..3), 0..10)).prop_map(|(sc, mut schedule)| {
    schedule.sort();
    schedule.dedup_by_key(|d| d.0);
    Case { sc, schedule }
  })
}

fn prop_case(run: &Run, c: &Case, rec: &mut CaseRec) -> Result<(), Violation> {
  if c.sc.producers.is_empty() {
    return Ok(());
  }
  let o = execute(&c.sc, &c.schedule);
  rec.nontrivial = preempts_in_window(&o.res.steps, &c.schedule);
  rec.label_if(rec.nontrivial, "preempted_inside_critical_window");
  rec.label_if(c.sc.consumers.len() > 1, "two_consumers");
  rec.label_if(c.sc.late_attach && c.sc.pipes.len() > 1, "late_attach");
  rec.label_if(c.sc.detach.iter().take(c.sc.producers.len()).any(|d| *d), "pipe_deregistered_after_last_send");
  rec.label_if(c.sc.consumers.iter().any(|c| matches!(c, COp::CancelThenPop)), "cancelled_pop");
  rec.count("steps", o.res.steps.len() as u64);
  if o.res.hit_step_limit {
    let tail: Vec<String> = o.res.steps.iter().rev().take(8).rev().map(|s| format!("t{}@{}", s.ran, s.label)).collect();
    run.note_inconclusive_case("sampled", format!("step limit: {} received of {}; scenario {:?}; tail {:?}", o.popped.len(), c.sc.total_items(), c.sc, tail));
  }
  judge(&c.sc, &c.schedule, &o)
}

fn exhaustive(run: &Run, name: &str, sc: Scenario, bound: usize, max_runs: u64) {
  let sub = "bounded_exhaustive";
  if run.is_replay() {
    if let Some(case) = run.replay_case(sub) {
      if let Ok(c) = serde_json::from_value::<Case>(case.clone()) {
        let o = execute(&c.sc, &c.schedule);
        if let Err(v) = judge(&c.sc, &c.schedule, &o) {
          run.report(sub, v, case);
        }
      }
    }
    return;
  }
  let mut found = false;
  let (runs, complete) = sched::explore(bound, max_runs, |schedule| {
    let o = execute(&sc, schedule);
    let mut rec = CaseRec::default();
    rec.nontrivial = preempts_in_window(&o.res.steps, schedule);
    rec.label_if(rec.nontrivial, "preempted_inside_critical_window");
    let case = json!({"sc": sc, "schedule": schedule});
    run.record_case(sub, || case.clone(), &rec, hash_of(&(name, schedule)));
    if let Err(v) = judge(&sc, schedule, &o) {
      if !run.report(sub, v, case) {
        found = true;
        return Err(());
      }
    }
    Ok(o.res.steps)
  });
  run.add_subspace(&format!("{}: every schedule with at most {} decisions (preemptions / choices)", name, bound), runs, complete && !found);
}

pub fn run(run: &mut Run) {
  run.rule = "schedules of the real ReadyPipeQueue under the deterministic thread scheduler. Bounded-exhaustive: fixed small scenarios (1 pipe x {send,send} + pop; try_send/batch + pop with capacity 1; 2 pipes + 1 consumer; 1 pipe + 2 consumers; cancelled pop; a pipe deregistered with a backlog, drained by pop / try_pop) with every schedule of at most k decisions (k = 2 quick, 3 thorough); sampled: generated scenarios (1..3 pipes of capacity 1..2, one producer per pipe with 1..3 ops from send/try_send/batch, 1..2 consumers using pop/try_pop/cancelled pop, optional late attach, each producer deregistering its pipe after its last op with probability 0.3) x up to 10 random decisions. Non-trivial = a decision preempts a task standing between a channel write and its counter update, or between a dequeue and the re-arm. Distinct = hash of (scenario, schedule)".into();
  run.assumptions = vec![
    "each fibre channel operation and each atomic is one atomic step for the scheduler (interleavings inside the channel implementation and memory-ordering effects are not explored)".into(),
    "per-pipe FIFO is only judged with a single consumer (with two consumers the recording order is not the dequeue order)".into(),
  ];
  let (bound, max_runs, sampled) = match run.tier {
    Tier::Quick => (3usize, 30000u64, 4000u32),
    Tier::Thorough => (4usize, 2_000_000u64, 300_000u32),
  };
  let sc1 = Scenario { pipes: vec![2], producers: vec![(0, vec![POp::Send, POp::Send, POp::Send])], consumers: vec![COp::Pop], late_attach: false, detach: vec![] };
  let sc2 = Scenario { pipes: vec![1], producers: vec![(0, vec![POp::TrySend, POp::Batch(2)])], consumers: vec![COp::Pop], late_attach: false, detach: vec![] };
  let sc3 = Scenario { pipes: vec![1, 1], producers: vec![(0, vec![POp::Send, POp::Send]), (1, vec![POp::Send])], consumers: vec![COp::Pop], late_attach: false, detach: vec![] };
  let sc4 = Scenario { pipes: vec![2], producers: vec![(0, vec![POp::Send, POp::Send, POp::Send])], consumers: vec![COp::Pop, COp::Pop], late_attach: false, detach: vec![] };
  let sc5 = Scenario { pipes: vec![2], producers: vec![(0, vec![POp::Send, POp::TrySend])], consumers: vec![COp::CancelThenPop], late_attach: false, detach: vec![] };
  let sc6 = Scenario { pipes: vec![1, 1], producers: vec![(0, vec![POp::Send]), (1, vec![POp::Send, POp::Send])], consumers: vec![COp::TryPop], late_attach: true, detach: vec![] };
  let sc7 = Scenario { pipes: vec![2, 1], producers: vec![(0, vec![POp::Send, POp::Send]), (1, vec![POp::Send])], consumers: vec![COp::Pop], late_attach: false, detach: vec![true, false] };
  let sc8 = Scenario { pipes: vec![2], producers: vec![(0, vec![POp::Batch(2)])], consumers: vec![COp::TryPop], late_attach: false, detach: vec![true] };
  for (name, sc) in [("send3_pop", sc1), ("trysend_batch_cap1", sc2), ("two_pipes", sc3), ("two_consumers", sc4), ("cancelled_pop", sc5), ("late_attach_try_pop", sc6), ("detached_with_backlog", sc7), ("detached_with_backlog_try_pop", sc8)] {
    exhaustive(run, name, sc, bound, max_runs);
    if run.n_violations() > 0 {
      break;
    }
  }
  run.prop("sampled", sampled, 16, 300, case_strategy(), |c, rec| prop_case(run, c, rec));
  if run.undecided("sampled") * 20 > sampled as u64 {
    run.inconclusive(format!("{} sampled schedules hit the step limit", run.undecided("sampled")));
  }
}
