//! C07, stack level: raw peers against real sockets.
//!  * boundary: a frame of exactly MAXMSGSIZE is delivered, MAXMSGSIZE+1 closes that connection
//!  * slow peer: a peer that drips (or sends nothing) during the handshake is disconnected
//!    within HANDSHAKE_IVL (+ slack), however it paces its bytes
//!  * isolation: meanwhile an honest peer of the same socket keeps exchanging traffic
//!  * slots: with MAX_CONNECTIONS = 2, two stalled peers do not hold the slots for good
//!  * malformed: 300 MORE frames / garbage kills only the offending connection (no panic)

use crate::engine::{fill, panic_log_len, panic_log_since, CaseRec, Run, Tier, Violation};
use crate::stack::{self, l2_result, run_l2, Rt, Transport, L2};
use crate::wire::{self, RefFrame};
use proptest::prelude::*;
use rzmq::socket::options as opt;
use serde::{Deserialize, Serialize};
use std::time::Duration;

#[derive(Clone, Debug, Serialize, Deserialize)]
pub enum Scenario {
  /// frame of limit+delta after an honest NULL handshake
  Boundary { limit: u32, delta: i8 },
  /// handshake bytes dripped one per `pace_ms`; HANDSHAKE_IVL = ivl_ms; 0 = send nothing at all
  SlowPeer { ivl_ms: u16, pace_ms: u16 },
  /// MAX_CONNECTIONS = 2 and two silent peers; a third must get in after the interval
  Slots { ivl_ms: u16 },
  /// n MORE frames after the handshake, or garbage inside the handshake
  Malformed { more_frames: u16, garbage_in_handshake: bool },
}

#[derive(Clone, Debug, Serialize, Deserialize)]
pub struct Case {
  pub sc: Scenario,
  pub transport: Transport,
}

fn case_strategy() -> impl Strategy<Value = Case> + Clone {
  let sc = prop_oneof![
    3 => (prop::sample::select(vec![64u32, 255, 256, 4096, 70_000]), prop::sample::select(vec![0i8, 1, 1, -1, 20])).prop_map(|(limit, delta)| Scenario::Boundary { limit, delta }),
    3 => (prop::sample::select(vec![300u16, 400, 600]), prop::sample::select(vec![0u16, 60, 150, 250])).prop_map(|(ivl_ms, pace_ms)| Scenario::SlowPeer { ivl_ms, pace_ms }),
    1 => prop::sample::select(vec![300u16, 500]).prop_map(|ivl_ms| Scenario::Slots { ivl_ms }),
    2 => (prop::sample::select(vec![254u16, 255, 256, 300]), prop::bool::weighted(0.3)).prop_map(|(more_frames, garbage_in_handshake)| Scenario::Malformed { more_frames, garbage_in_handshake }),
  ];
  (sc, prop::sample::select(vec![Transport::Tcp, Transport::Ipc])).prop_map(|(sc, transport)| Case { sc, transport })
}

fn honest_handshake(peer_type: &str) -> Vec<u8> {
  let mut v = wire::greeting_v3(0, "NULL", false);
  wire::encode_frame(&wire::ready(peer_type, None), &mut v);
  v
}

/// Sends `n` numbered messages from an honest rzmq PUSH and checks the PULL receives them.
async fn healthy_roundtrip(push: &rzmq::Socket, pull: &rzmq::Socket, tag: u8, n: usize) -> Result<(), String> {
  for i in 0..n {
    push.send(rzmq::Msg::from_vec(vec![b'H', tag, i as u8])).await.map_err(|e| format!("healthy send failed: {}", e))?;
  }
  let mut got = 0;
  while got < n {
    match pull.recv().await {
      Ok(m) => {
        let d = m.data().unwrap_or(&[]);
        if d.len() == 3 && d[0] == b'H' && d[1] == tag {
          got += 1;
        } else if d.first() == Some(&b'H') {
          // stale healthy message from an earlier round
        } else {
          return Err(format!("unexpected message of {} bytes delivered while waiting for healthy traffic", d.len()));
        }
      }
      Err(e) => return Err(format!("healthy traffic stalled: {}", e)),
    }
  }
  Ok(())
}

async fn body(c: &Case) -> L2 {
  let ctx = match rzmq::Context::new() {
    Ok(x) => x,
    Err(e) => return L2::Inconclusive(e.to_string()),
  };
  let panics_before = panic_log_len();
  let mut opts = vec![stack::i32opt(opt::RCVTIMEO, 5000)];
  match &c.sc {
    Scenario::Boundary { limit, .. } => opts.push((opt::MAXMSGSIZE, (*limit as i64).to_ne_bytes().to_vec())),
    Scenario::SlowPeer { ivl_ms, .. } => opts.push(stack::i32opt(opt::HANDSHAKE_IVL, *ivl_ms as i32)),
    Scenario::Slots { ivl_ms } => {
      opts.push(stack::i32opt(opt::HANDSHAKE_IVL, *ivl_ms as i32));
      opts.push(stack::i32opt(opt::MAX_CONNECTIONS, 3));
    }
    Scenario::Malformed { .. } => {}
  }
  let (pull, ep) = match stack::bound(&ctx, "PULL", c.transport, &opts).await {
    Ok(x) => x,
    Err(e) => return L2::Inconclusive(e),
  };
  // honest peer of the same socket (isolation witness)
  let push = match stack::connected(&ctx, "PUSH", &ep, &[stack::i32opt(opt::SNDTIMEO, 5000)]).await {
    Ok(s) => s,
    Err(e) => return L2::Inconclusive(e),
  };
  if let Err(e) = healthy_roundtrip(&push, &pull, 0, 3).await {
    return L2::Inconclusive(format!("healthy baseline failed: {}", e));
  }
  let sig = |check: &str, detail: String| L2::Violation(Violation::new(check, detail).with("layer", "stack").with("transport", c.transport.name()));

  let verdict = match &c.sc {
    Scenario::Boundary { limit, delta } => {
      let size = (*limit as i64 + *delta as i64).max(0) as usize;
      let over = size > *limit as usize;
      let mut raw = match stack::raw_connect(&ep).await {
        Ok(r) => r,
        Err(e) => return L2::Inconclusive(e.to_string()),
      };
      let mut bytes = honest_handshake("PUSH");
      let mut payload = b"RAW".to_vec();
      payload.extend(fill(size.saturating_sub(3), 1));
      payload.truncate(size);
      wire::encode_frame(&RefFrame::data(payload.clone(), false), &mut bytes);
      let _ = raw.write_all(&bytes).await;
      if over {
        let closed = raw.wait_closed(Duration::from_secs(4)).await;
        // nothing of it may be delivered and the healthy peer keeps working
        match healthy_roundtrip(&push, &pull, 1, 3).await {
          Err(e) => sig("failure_not_isolated", format!("after an oversize frame ({} > MAXMSGSIZE {}): {}", size, limit, e)),
          Ok(()) => {
            if closed.is_none() {
              sig("limit_not_enforced", format!("frame of {} bytes with MAXMSGSIZE {}: connection still open after 4 s", size, limit))
            } else {
              L2::Ok
            }
          }
        }
      } else {
        // must be delivered
        let mut found = false;
        for _ in 0..3 {
          match pull.recv().await {
            Ok(m) if m.data().unwrap_or(&[]) == &payload[..] => {
              found = true;
              break;
            }
            Ok(_) => continue,
            Err(_) => break,
          }
        }
        if found {
          L2::Ok
        } else {
          sig("limit_rejects_allowed_frame", format!("frame of {} bytes with MAXMSGSIZE {} was not delivered", size, limit))
        }
      }
    }
    Scenario::SlowPeer { ivl_ms, pace_ms } => {
      let mut raw = match stack::raw_connect(&ep).await {
        Ok(r) => r,
        Err(e) => return L2::Inconclusive(e.to_string()),
      };
      let start = tokio::time::Instant::now();
      let hs = honest_handshake("PUSH");
      // Session minimum lifespan (1 s) may delay the close of a young connection; slack 2 s.
      let limit = Duration::from_millis((*ivl_ms as u64).max(1000) + 2000);
      let mut closed_at = None;
      let mut sent = 0usize;
      // never send the last handshake byte: the handshake must not complete
      while start.elapsed() < limit {
        if *pace_ms > 0 && sent + 1 < hs.len() {
          if raw.write_all(&hs[sent..sent + 1]).await.is_err() {
            closed_at = Some(start.elapsed());
            break;
          }
          sent += 1;
        }
        let wait = Duration::from_millis(if *pace_ms == 0 { 100 } else { *pace_ms as u64 });
        match raw.read_some(wait).await {
          Ok(Some(b)) if b.is_empty() => {
            closed_at = Some(start.elapsed());
            break;
          }
          Err(_) => {
            closed_at = Some(start.elapsed());
            break;
          }
          _ => {}
        }
      }
      let healthy = healthy_roundtrip(&push, &pull, 2, 3).await;
      match (closed_at, healthy) {
        (_, Err(e)) => sig("failure_not_isolated", format!("while a peer stalls in the handshake: {}", e)),
        (None, _) => L2::Violation(
          Violation::new(
            "handshake_timeout_not_enforced",
            format!("HANDSHAKE_IVL {} ms, peer sending one byte every {} ms ({} bytes so far) is still connected after {:?}", ivl_ms, pace_ms, sent, limit),
          )
          .with("layer", "stack")
          .with("transport", c.transport.name())
          .with("pacing", if *pace_ms == 0 { "silent" } else { "drip" }),
        ),
        (Some(_), Ok(())) => L2::Ok,
      }
    }
    Scenario::Slots { ivl_ms } => {
      // MAX_CONNECTIONS 3: the honest PUSH holds one, two silent raw peers take the other two.
      let r1 = stack::raw_connect(&ep).await;
      let r2 = stack::raw_connect(&ep).await;
      if r1.is_err() || r2.is_err() {
        return L2::Inconclusive("raw connect failed".into());
      }
      tokio::time::sleep(Duration::from_millis((*ivl_ms as u64).max(1000) + 2000)).await;
      let third = match stack::connected(&ctx, "PUSH", &ep, &[stack::i32opt(opt::SNDTIMEO, 4000), stack::i32opt(opt::RECONNECT_IVL, 100)]).await {
        Ok(s) => s,
        Err(e) => return L2::Inconclusive(e),
      };
      let r = match third.send(rzmq::Msg::from_static(b"THIRD")).await {
        Err(e) => sig("slot_not_released", format!("third peer cannot send after two stalled peers sat through HANDSHAKE_IVL {}: {}", ivl_ms, e)),
        Ok(()) => {
          let mut ok = false;
          for _ in 0..4 {
            match pull.recv().await {
              Ok(m) if m.data().unwrap_or(&[]) == b"THIRD" => {
                ok = true;
                break;
              }
              Ok(_) => continue,
              Err(_) => break,
            }
          }
          if ok {
            L2::Ok
          } else {
            sig("slot_not_released", format!("third peer's message never arrived (HANDSHAKE_IVL {}, MAX_CONNECTIONS 3, two stalled peers)", ivl_ms))
          }
        }
      };
      let _ = third.close().await;
      drop(r1);
      drop(r2);
      r
    }
    Scenario::Malformed { more_frames, garbage_in_handshake } => {
      let mut raw = match stack::raw_connect(&ep).await {
        Ok(r) => r,
        Err(e) => return L2::Inconclusive(e.to_string()),
      };
      let mut bytes = Vec::new();
      if *garbage_in_handshake {
        bytes.extend(wire::greeting_v3(0, "NULL", false));
        bytes.extend(fill(200, 3));
      } else {
        bytes.extend(honest_handshake("PUSH"));
        for i in 0..*more_frames {
          wire::encode_frame(&RefFrame::data(vec![b'M', (i % 250) as u8], true), &mut bytes);
        }
        wire::encode_frame(&RefFrame::data(b"Mlast".to_vec(), false), &mut bytes);
      }
      let _ = raw.write_all(&bytes).await;
      tokio::time::sleep(Duration::from_millis(300)).await;
      let healthy = healthy_roundtrip(&push, &pull, 3, 3).await;
      let new_panics: Vec<_> = panic_log_since(panics_before).into_iter().filter(|(_, _, loc)| !loc.contains("harness/src")).collect();
      if let Some((thread, msg, loc)) = new_panics.first() {
        L2::Violation(
          Violation::new("panic", format!("a task panicked while a peer sent {} MORE frames: {} at {} (thread {})", more_frames, msg.chars().take(120).collect::<String>(), loc, thread))
            .with("where", loc.clone())
            .with("layer", "stack"),
        )
      } else if let Err(e) = healthy {
        // a 255-frame message is legal and is delivered to the application: skip over it
        if e.contains("unexpected message") && *more_frames < 255 {
          L2::Ok
        } else {
          sig("failure_not_isolated", format!("after {} MORE frames / garbage: {}", more_frames, e))
        }
      } else {
        L2::Ok
      }
    }
  };
  let _ = push.close().await;
  let _ = pull.close().await;
  stack::term(&ctx).await;
  verdict
}

fn prop_case(run: &Run, c: &Case, rec: &mut CaseRec) -> Result<(), Violation> {
  rec.nontrivial = true;
  rec.label(match c.sc {
    Scenario::Boundary { .. } => "boundary",
    Scenario::SlowPeer { .. } => "slow_peer",
    Scenario::Slots { .. } => "slots",
    Scenario::Malformed { .. } => "malformed",
  });
  rec.label(c.transport.name());
  let r = run_l2(Rt::Multi(2), Duration::from_secs(45), body(c));
  l2_result(run, "stack", r)
}

pub fn run(run: &Run) {
  let n = match run.tier {
    Tier::Quick => 40,
    Tier::Thorough => 600,
  };
  // timing-sensitive lane: at most 4 cases in parallel
  run.prop("stack", n, 4, 6, case_strategy(), |c, rec| prop_case(run, c, rec));
  if run.undecided("stack") * 10 > n as u64 {
    run.inconclusive(format!("{} of {} stack cases could not be decided", run.undecided("stack"), n));
  }
  stack::cleanup_scratch();
}
