//! C04 — what a connection delivers depends on the bytes sent, not on read boundaries.
//!
//! L1 (engine): a peer transcript built by the harness's reference encoder (handshake + data) is
//! fed to a fresh engine under every single cut, random multi-cuts, byte-by-byte and all at once;
//! the application-visible event sequence must be the same each time and must equal the
//! transcript's messages. Live variant for CURVE/NOISE: data written right behind the last
//! handshake bytes of a live pair.
//! L2 (stack): raw tcp / unix-socket peers write the same transcripts to real sockets with
//! controlled write boundaries (see l2 part below).

use crate::engine::{fill, hash_of, CaseRec, Run, Tier, Violation};
use crate::pair::{AppEvt, EndSpec, Mech, Pair, Side};
use crate::wire::{self, RefFrame};
use proptest::prelude::*;
use serde::{Deserialize, Serialize};
use serde_json::json;

#[derive(Clone, Debug, Serialize, Deserialize, PartialEq, Eq, Hash)]
pub enum Proto {
  V3Null,
  V3Plain,
  V2,
}

#[derive(Clone, Debug, Serialize, Deserialize)]
pub struct MsgSpec {
  /// frame lengths of one logical message
  pub frames: Vec<(u32, u16)>,
}

#[derive(Clone, Debug, Serialize, Deserialize)]
pub struct Transcript {
  pub proto: Proto,
  /// rzmq's role (true = rzmq is the listener / server side)
  pub local_server: bool,
  pub local_type: String,
  pub peer_type: String,
  pub peer_identity: Vec<u8>,
  pub msgs: Vec<MsgSpec>,
}

#[derive(Clone, Debug, Serialize, Deserialize)]
pub struct Case {
  pub t: Transcript,
  /// cut positions as fractions; plus offsets relative to the end of the handshake
  pub cuts: Vec<CutSpec>,
}

#[derive(Clone, Debug, Serialize, Deserialize)]
pub enum CutSpec {
  Frac(u16),
  /// signed offset from the first data byte
  AroundHandshakeEnd(i8),
}

pub fn msg_frames(m: &MsgSpec) -> Vec<RefFrame> {
  let n = m.frames.len();
  m.frames.iter().enumerate().map(|(i, (len, seed))| RefFrame::data(fill(*len as usize, *seed as u64), i + 1 < n)).collect()
}

impl Transcript {
  pub fn local_spec(&self) -> EndSpec {
    let mech = match self.proto {
      Proto::V3Plain => Mech::Plain,
      _ => Mech::Null,
    };
    let mut s = EndSpec::new(&self.local_type, self.local_server, mech);
    if mech == Mech::Plain {
      s.plain = Some(("u".into(), "p".into()));
    }
    s
  }

  /// (handshake bytes, data bytes) the honest peer writes.
  pub fn bytes(&self) -> (Vec<u8>, Vec<u8>) {
    let id = if self.peer_identity.is_empty() { None } else { Some(self.peer_identity.as_slice()) };
    let mut hs = Vec::new();
    match self.proto {
      Proto::V3Null => {
        hs.extend(wire::greeting_v3(0, "NULL", !self.local_server));
        wire::encode_frame(&wire::ready(&self.peer_type, id), &mut hs);
      }
      Proto::V3Plain => {
        hs.extend(wire::greeting_v3(0, "PLAIN", !self.local_server));
        if self.local_server {
          wire::encode_frame(&wire::plain_hello(b"u", b"p"), &mut hs);
        } else {
          wire::encode_frame(&wire::plain_welcome(), &mut hs);
        }
        wire::encode_frame(&wire::ready(&self.peer_type, id), &mut hs);
      }
      Proto::V2 => {
        hs.extend(wire::greeting_v2(&self.peer_type));
        hs.extend(wire::v2_identity_frame(&self.peer_identity));
      }
    }
    let mut data = Vec::new();
    for m in &self.msgs {
      for f in msg_frames(m) {
        wire::encode_frame(&f, &mut data);
      }
    }
    (hs, data)
  }

  pub fn expected_events(&self) -> Vec<AppEvt> {
    let mut v = vec![AppEvt::Complete {
      identity: if self.peer_identity.is_empty() { None } else { Some(self.peer_identity.clone()) },
      socket_type: Some(self.peer_type.clone()),
    }];
    for m in &self.msgs {
      v.push(AppEvt::Deliver(msg_frames(m)));
    }
    v
  }
}

pub fn transcript_strategy(max_msgs: usize) -> impl Strategy<Value = Transcript> + Clone {
  let pairs: Vec<(&str, &str)> = vec![("PULL", "PUSH"), ("ROUTER", "DEALER"), ("SUB", "PUB"), ("DEALER", "ROUTER"), ("REP", "REQ"), ("DEALER", "DEALER")];
  let len = prop_oneof![3 => prop::sample::select(vec![0u32, 1, 255, 256]), 3 => 0u32..40, 1 => 0u32..2000];
  let msg = prop::collection::vec((len, any::<u16>()), 1..4).prop_map(|frames| MsgSpec { frames });
  (
    prop::sample::select(vec![Proto::V3Null, Proto::V3Plain, Proto::V2]),
    any::<bool>(),
    prop::sample::select(pairs),
    prop_oneof![Just(vec![]), prop::collection::vec(1u8..=255, 1..12)],
    prop::collection::vec(msg, 0..=max_msgs),
  )
    .prop_map(|(proto, local_server, (lt, pt), peer_identity, msgs)| Transcript {
      proto,
      local_server,
      local_type: lt.to_string(),
      peer_type: pt.to_string(),
      peer_identity,
      msgs,
    })
}

fn case_strategy() -> impl Strategy<Value = Case> + Clone {
  let cut = prop_oneof![2 => any::<u16>().prop_map(CutSpec::Frac), 3 => (-12i8..=12).prop_map(CutSpec::AroundHandshakeEnd)];
  (transcript_strategy(8), prop::collection::vec(cut, 0..6)).prop_map(|(t, cuts)| Case { t, cuts })
}

/// Feeds `stream` cut at `cuts` into a fresh engine; returns the app events.
pub fn replay_into_engine(t: &Transcript, stream: &[u8], cuts: &[usize]) -> Result<Side, Violation> {
  let eng = t.local_spec().build().map_err(|e| Violation::new("engine_build", e))?;
  let mut side = Side::new(eng);
  side.start();
  let mut prev = 0;
  for &c in cuts.iter().chain(std::iter::once(&stream.len())) {
    if c > prev {
      side.feed(&stream[prev..c]);
      prev = c;
    }
  }
  Ok(side)
}

fn describe(evts: &[AppEvt]) -> String {
  evts
    .iter()
    .map(|e| match e {
      AppEvt::Complete { .. } => "Complete".to_string(),
      AppEvt::Deliver(f) => format!("Deliver{:?}", f.iter().map(|x| x.body.len()).collect::<Vec<_>>()),
      AppEvt::Error(s) => format!("Error({})", s),
    })
    .collect::<Vec<_>>()
    .join(",")
}

fn check_one(t: &Transcript, stream: &[u8], hs_len: usize, cuts: &[usize], want: &[AppEvt]) -> Result<(), Violation> {
  let side = replay_into_engine(t, stream, cuts)?;
  if side.apps != want {
    let proto = format!("{:?}", t.proto);
    return Err(
      Violation::new(
        "segmentation_changes_delivery",
        format!(
          "proto {} local {} ({}) cuts {:?} (handshake ends at {}): got [{}] want [{}]",
          proto,
          t.local_type,
          if t.local_server { "server" } else { "client" },
          cuts,
          hs_len,
          describe(&side.apps),
          describe(want)
        ),
      )
      .with("layer", "engine")
      .with("proto", proto),
    );
  }
  if side.eng.buffer_len() != 0 {
    return Err(Violation::new("leftover_bytes", format!("{} bytes left in the engine after the whole transcript", side.eng.buffer_len())).with("layer", "engine"));
  }
  Ok(())
}

pub fn resolve(cuts: &[CutSpec], total: usize, hs_len: usize) -> Vec<usize> {
  let mut v: Vec<usize> = cuts
    .iter()
    .map(|c| match c {
      CutSpec::Frac(x) => (*x as usize * (total + 1)) >> 16,
      CutSpec::AroundHandshakeEnd(d) => (hs_len as i64 + *d as i64).max(0) as usize,
    })
    .filter(|p| *p > 0 && *p < total)
    .collect();
  v.sort_unstable();
  v.dedup();
  v
}

fn prop_case(c: &Case, rec: &mut CaseRec) -> Result<(), Violation> {
  let (hs, data) = c.t.bytes();
  let hs_len = hs.len();
  let mut stream = hs;
  stream.extend_from_slice(&data);
  let want = c.t.expected_events();
  let cuts = resolve(&c.cuts, stream.len(), hs_len);
  // data frame shares a chunk with the last handshake byte iff no cut sits exactly at hs_len
  let shares = !c.t.msgs.is_empty() && !cuts.contains(&hs_len);
  rec.nontrivial = shares;
  rec.label_if(shares, "data_shares_chunk_with_handshake_end");
  rec.label(match c.t.proto {
    Proto::V3Null => "v3_null",
    Proto::V3Plain => "v3_plain",
    Proto::V2 => "v2",
  });
  rec.label_if(c.t.msgs.iter().any(|m| m.frames.len() > 1), "multipart");
  check_one(&c.t, &stream, hs_len, &cuts, &want)?;
  check_one(&c.t, &stream, hs_len, &[], &want)?;
  if stream.len() <= 400 {
    let all: Vec<usize> = (1..stream.len()).collect();
    check_one(&c.t, &stream, hs_len, &all, &want)?;
  }
  rec.count("engine_runs", 3);
  Ok(())
}

/// Every single cut position of a set of generated transcripts (bounded-exhaustive per transcript).
fn single_cuts(run: &Run, n_transcripts: u32) {
  let sub = "single_cut_exhaustive";
  if let Some(case) = run.replay_case(sub) {
    let t: Transcript = match serde_json::from_value(case["t"].clone()) {
      Ok(t) => t,
      Err(_) => return,
    };
    let cut = case["cut"].as_u64().unwrap_or(0) as usize;
    let (hs, data) = t.bytes();
    let hs_len = hs.len();
    let mut stream = hs;
    stream.extend_from_slice(&data);
    if let Err(v) = check_one(&t, &stream, hs_len, &[cut], &t.expected_events()) {
      run.report(sub, v, case);
    }
    return;
  }
  if run.is_replay() {
    return;
  }
  use proptest::strategy::ValueTree;
  use proptest::test_runner::{Config, RngSeed, TestRunner};
  let mut runner = TestRunner::new(Config { rng_seed: RngSeed::Fixed(run.sub_seed(sub, 0)), failure_persistence: None, ..Config::default() });
  let strat = transcript_strategy(4);
  let mut evals = 0u64;
  for _ in 0..n_transcripts {
    let t = strat.new_tree(&mut runner).unwrap().current();
    let (hs, data) = t.bytes();
    let hs_len = hs.len();
    let mut stream = hs;
    stream.extend_from_slice(&data);
    if stream.len() > 1500 {
      continue;
    }
    let want = t.expected_events();
    for cut in 1..stream.len() {
      evals += 1;
      let mut rec = CaseRec::default();
      rec.nontrivial = !t.msgs.is_empty() && cut != hs_len;
      rec.label_if(cut > hs_len, "cut_in_data");
      rec.label_if(cut == hs_len, "cut_at_handshake_end");
      let res = check_one(&t, &stream, hs_len, &[cut], &want);
      let case = json!({"t": t, "cut": cut});
      run.record_case(sub, || case.clone(), &rec, hash_of(&(serde_json::to_string(&t).unwrap(), cut)));
      if let Err(v) = res {
        if !run.report(sub, v, case) {
          return;
        }
      }
    }
  }
  run.add_subspace("every single cut position of each generated transcript (complete per transcript)", evals, true);
}

// --- live pairs (all four mechanisms): data written right behind the handshake ---------------------

#[derive(Clone, Debug, Serialize, Deserialize)]
pub struct LiveCase {
  pub mech: Mech,
  /// true: the server is the data sender (its READY is its last handshake write)
  pub sender_is_server: bool,
  pub msgs: Vec<MsgSpec>,
  /// chunk sizes used to deliver the sender's tail (READY + data) to the receiver
  pub chunks: Vec<u16>,
}

fn live_strategy() -> impl Strategy<Value = LiveCase> + Clone {
  let len = prop_oneof![3 => prop::sample::select(vec![0u32, 1, 255, 256]), 3 => 0u32..40, 1 => 0u32..5000];
  let msg = prop::collection::vec((len, any::<u16>()), 1..4).prop_map(|frames| MsgSpec { frames });
  (
    prop::sample::select(Mech::ALL.to_vec()),
    any::<bool>(),
    prop::collection::vec(msg, 1..6),
    prop::collection::vec(prop_oneof![2 => Just(u16::MAX), 2 => 1u16..80, 1 => 1u16..2000], 0..12),
  )
    .prop_map(|(mech, sender_is_server, msgs, chunks)| LiveCase { mech, sender_is_server, msgs, chunks })
}

fn to_batch(m: &MsgSpec) -> rzmq::FrameBatch {
  let mut b = rzmq::FrameBatch::new();
  for f in msg_frames(m) {
    b.push(crate::props::c03::to_msg(&f));
  }
  b
}

fn prop_live(c: &LiveCase, rec: &mut CaseRec) -> Result<(), Violation> {
  let mut s = EndSpec::new("DEALER", true, c.mech);
  let mut cl = EndSpec::new("DEALER", false, c.mech);
  s.plain = Some(("u".into(), "p".into()));
  cl.plain = Some(("u".into(), "p".into()));
  let mut p = Pair::new(s.build().map_err(|e| Violation::new("engine_build", e))?, cl.build().map_err(|e| Violation::new("engine_build", e))?);
  // Drive whole-buffer until the sender side has completed; stop before delivering the
  // sender's last handshake bytes to the receiver.
  let sender_a = c.sender_is_server; // a = server
  let mut guard = 0;
  loop {
    let sender_done = if sender_a { p.a.completed() } else { p.b.completed() };
    if sender_done {
      break;
    }
    // deliver towards the sender first so that it completes as early as possible
    let n = if sender_a { p.a.inbox.len() } else { p.b.inbox.len() };
    if n > 0 {
      p.deliver(sender_a, n);
    } else {
      let m = if sender_a { p.b.inbox.len() } else { p.a.inbox.len() };
      if m == 0 {
        break;
      }
      p.deliver(!sender_a, m);
    }
    guard += 1;
    if guard > 200 {
      break;
    }
  }
  let sender_done = if sender_a { p.a.completed() } else { p.b.completed() };
  if !sender_done {
    return Err(Violation::new("live_handshake_failed", format!("sender never completed ({:?})", c.mech)).with("layer", "engine"));
  }
  let pending_hs = if sender_a { p.b.inbox.len() } else { p.a.inbox.len() };
  let receiver_done_before = if sender_a { p.b.completed() } else { p.a.completed() };
  for m in &c.msgs {
    let evts = p.app_send(sender_a, to_batch(m));
    if evts.iter().any(|e| matches!(e, AppEvt::Error(_))) {
      return Err(Violation::new("live_send_error", format!("{:?}", evts)).with("layer", "engine"));
    }
  }
  rec.nontrivial = pending_hs > 0 && !receiver_done_before;
  rec.label_if(rec.nontrivial, "data_queued_behind_unread_handshake_bytes");
  rec.label(c.mech.name());
  // Deliver the tail to the receiver with the generated chunking.
  for n in &c.chunks {
    p.deliver(!sender_a, *n as usize);
  }
  p.run(&[]);
  let recv = if sender_a { &p.b } else { &p.a };
  let want: Vec<Vec<RefFrame>> = c.msgs.iter().map(msg_frames).collect();
  if recv.delivered() != want || recv.errored() {
    return Err(
      Violation::new(
        "segmentation_changes_delivery",
        format!("live {:?} sender={} chunks {:?}: receiver events [{}], sent {} messages", c.mech, if sender_a { "server" } else { "client" }, c.chunks, describe(&recv.apps), want.len()),
      )
      .with("layer", "engine")
      .with("proto", format!("live_{}", c.mech.name())),
    );
  }
  Ok(())
}

pub fn run(run: &mut Run) {
  run.rule = "L1: transcripts = harness-encoded honest peer bytes (v3 NULL / v3 PLAIN / v2, rzmq as listener or connector, 0..8 data messages of 1..3 frames, sizes across 255/256) x cut sets (fractions and offsets -12..+12 around the end of the handshake), plus all-at-once and byte-by-byte; exhaustive: every single cut of each generated transcript; live: engine pairs of all four mechanisms where the sender's data is queued right behind its last handshake bytes and delivered under generated chunking. L2: see the stack sub-check. Non-trivial = at least one data message and a data frame shares a chunk with the last handshake byte; distinct = hash of the case".into();
  run.assumptions = vec![
    "the honest peer's bytes for NULL/PLAIN/v2 do not depend on what rzmq sends, so a fixed transcript can be replayed under any segmentation".into(),
    "harness reference encoder (wire.rs) produces what an honest ZMTP peer would send".into(),
  ];
  let (n_single, n_rand, n_live) = match run.tier {
    Tier::Quick => (40, 4000, 2000),
    Tier::Thorough => (800, 100_000, 40_000),
  };
  single_cuts(run, n_single);
  run.prop("random_cuts", n_rand, 16, 500, case_strategy(), prop_case);
  run.prop("live_pairs", n_live, 16, 300, live_strategy(), prop_live);
  crate::props::c04_l2::run(run);
}
