//! C04, stack level: a raw tcp / unix-socket peer writes an honest transcript (handshake + data)
//! to a real rzmq socket with controlled write boundaries. A sentinel message written later
//! (own write, after a pause) closes the stream: per-connection FIFO means every earlier message
//! must have been handed to the application when the sentinel is.

use crate::engine::{CaseRec, Run, Tier, Violation};
use crate::props::c04::{msg_frames, resolve, CutSpec, MsgSpec, Proto, Transcript};
use crate::stack::{self, l2_result, run_l2, RawListener, Rt, Transport, L2};
use crate::wire;
use proptest::prelude::*;
use rzmq::socket::options as opt;
use serde::{Deserialize, Serialize};
use std::time::Duration;

#[derive(Clone, Debug, Serialize, Deserialize)]
pub struct Case {
  pub t: Transcript,
  pub transport: Transport,
  pub rt: Rt,
  pub cuts: Vec<CutSpec>,
  /// the peer shuts its write side immediately behind the last byte (the FIN sits in the same
  /// burst as the data): everything before it still has to be delivered
  #[serde(default)]
  pub eof_behind_data: bool,
}

fn case_strategy() -> impl Strategy<Value = Case> + Clone {
  let len = prop_oneof![3 => prop::sample::select(vec![0u32, 1, 255, 256]), 3 => 0u32..40, 1 => 0u32..3000];
  let msg = prop::collection::vec((len, any::<u16>()), 1..4).prop_map(|frames| MsgSpec { frames });
  let cut = prop_oneof![1 => any::<u16>().prop_map(CutSpec::Frac), 3 => (-12i8..=12).prop_map(CutSpec::AroundHandshakeEnd)];
  (
    prop::sample::select(vec![Proto::V3Null, Proto::V3Plain, Proto::V2]),
    any::<bool>(),
    prop::sample::select(vec![("PULL", "PUSH"), ("SUB", "PUB")]),
    prop::collection::vec(msg, 1..5),
    prop::sample::select(vec![Transport::Tcp, Transport::Ipc]),
    prop::sample::select(vec![Rt::Current, Rt::Multi(2)]),
    prop::collection::vec(cut, 0..2),
    prop::bool::weighted(0.3),
  )
    .prop_map(|(proto, local_server, (lt, pt), msgs, transport, rt, cuts, eof_behind_data)| Case {
      t: Transcript { proto, local_server, local_type: lt.into(), peer_type: pt.into(), peer_identity: vec![], msgs },
      transport,
      rt,
      cuts,
      eof_behind_data,
    })
}

const SENTINEL: &[u8] = b"\xF0SENTINEL-C04";

async fn body(c: &Case) -> L2 {
  let ctx = match rzmq::Context::new() {
    Ok(c) => c,
    Err(e) => return L2::Inconclusive(format!("context: {}", e)),
  };
  let mut opts = c.t.local_spec().options();
  opts.push(stack::i32opt(opt::RCVTIMEO, 8000));
  let (hs, data) = c.t.bytes();
  let hs_len = hs.len();
  let mut stream = hs;
  stream.extend_from_slice(&data);
  let cuts = resolve(&c.cuts, stream.len(), hs_len);

  // Establish the raw connection.
  let (sock, mut raw) = if c.t.local_server {
    let (s, ep) = match stack::bound(&ctx, &c.t.local_type, c.transport, &opts).await {
      Ok(x) => x,
      Err(e) => return L2::Inconclusive(e),
    };
    if c.t.local_type == "SUB" {
      let _ = s.set_option_raw(opt::SUBSCRIBE, b"").await;
    }
    let raw = match stack::raw_connect(&ep).await {
      Ok(r) => r,
      Err(e) => return L2::Inconclusive(format!("raw connect: {}", e)),
    };
    (s, raw)
  } else {
    let (l, ep) = match RawListener::bind(c.transport).await {
      Ok(x) => x,
      Err(e) => return L2::Inconclusive(format!("raw bind: {}", e)),
    };
    let s = match ctx.socket(stack::stype(&c.t.local_type)) {
      Ok(s) => s,
      Err(e) => return L2::Inconclusive(e.to_string()),
    };
    if let Err(e) = stack::set_opts(&s, &opts).await {
      return L2::Inconclusive(e);
    }
    if c.t.local_type == "SUB" {
      let _ = s.set_option_raw(opt::SUBSCRIBE, b"").await;
    }
    if let Err(e) = s.connect(&ep).await {
      return L2::Inconclusive(format!("connect: {}", e));
    }
    let raw = match l.accept(Duration::from_secs(5)).await {
      Some(r) => r,
      None => return L2::Inconclusive("rzmq never connected to the raw listener".into()),
    };
    (s, raw)
  };

  // Write the transcript with the generated boundaries (40 ms apart forces separate reads).
  let mut prev = 0;
  for &cpos in cuts.iter().chain(std::iter::once(&stream.len())) {
    if cpos > prev {
      if raw.write_all(&stream[prev..cpos]).await.is_err() {
        return L2::Inconclusive("raw write failed".into());
      }
      prev = cpos;
      if cpos != stream.len() {
        tokio::time::sleep(Duration::from_millis(40)).await;
      }
    }
  }
  if !c.eof_behind_data {
    tokio::time::sleep(Duration::from_millis(120)).await;
  }
  let mut sentinel = Vec::new();
  wire::encode_frame(&wire::RefFrame::data(SENTINEL.to_vec(), false), &mut sentinel);
  if raw.write_all(&sentinel).await.is_err() {
    return L2::Inconclusive("raw write (sentinel) failed".into());
  }
  if c.eof_behind_data {
    raw.shutdown_write().await;
  }

  // Receive until the sentinel.
  let want: Vec<Vec<Vec<u8>>> = c.t.msgs.iter().map(|m| msg_frames(m).into_iter().map(|f| f.body).collect()).collect();
  let mut got: Vec<Vec<Vec<u8>>> = Vec::new();
  let result = loop {
    match sock.recv_multipart().await {
      Ok(frames) => {
        let bodies: Vec<Vec<u8>> = frames.iter().map(|m| m.data().unwrap_or(&[]).to_vec()).collect();
        if bodies.len() == 1 && bodies[0] == SENTINEL {
          break Ok(());
        }
        got.push(bodies);
        if got.len() > want.len() + 4 {
          break Ok(());
        }
      }
      Err(e) => break Err(e),
    }
  };
  let verdict = match result {
    Err(e) if c.eof_behind_data => L2::Violation(
      Violation::new("data_before_eof_lost", format!("{:?} {} {}: the peer wrote {} messages and a sentinel and then shut its write side; the application received {} messages and then {} - bytes that arrived before the FIN were dropped", c.t.proto, c.transport.name(), c.t.local_type, want.len(), got.len(), e))
        .with("layer", "stack")
        .with("proto", format!("{:?}", c.t.proto))
        .with("transport", c.transport.name()),
    ),
    Err(e) => L2::Inconclusive(format!("sentinel never arrived: {} (got {} of {} messages)", e, got.len(), want.len())),
    Ok(()) => {
      if got != want {
        let shape = |v: &Vec<Vec<Vec<u8>>>| v.iter().map(|m| m.iter().map(|f| f.len()).collect::<Vec<_>>()).collect::<Vec<_>>();
        L2::Violation(
          Violation::new(
            "segmentation_changes_delivery",
            format!(
              "{:?} {} {} as {}: write boundaries {:?} (handshake ends at {}): application received {:?} before the sentinel, peer sent {:?}",
              c.t.proto,
              c.transport.name(),
              c.t.local_type,
              if c.t.local_server { "listener" } else { "connector" },
              cuts,
              hs_len,
              shape(&got),
              shape(&want)
            ),
          )
          .with("layer", "stack")
          .with("proto", format!("{:?}", c.t.proto))
          .with("transport", c.transport.name()),
        )
      } else {
        L2::Ok
      }
    }
  };
  drop(raw);
  let _ = sock.close().await;
  stack::term(&ctx).await;
  verdict
}

fn prop_case(run: &Run, c: &Case, rec: &mut CaseRec) -> Result<(), Violation> {
  let (hs, data) = c.t.bytes();
  let cuts = resolve(&c.cuts, hs.len() + data.len(), hs.len());
  let shares = !cuts.contains(&hs.len());
  rec.nontrivial = shares || c.eof_behind_data;
  rec.label_if(c.eof_behind_data, "eof_behind_data");
  rec.label_if(shares, "data_in_same_write_as_handshake_end");
  rec.label(c.transport.name());
  rec.label(if c.t.local_server { "listener" } else { "connector" });
  let r = run_l2(c.rt, Duration::from_secs(30), body(c));
  l2_result(run, "stack", r)
}

pub fn run(run: &Run) {
  let n = match run.tier {
    Tier::Quick => 64,
    Tier::Thorough => 1500,
  };
  run.prop("stack", n, 8, 12, case_strategy(), |c, rec| prop_case(run, c, rec));
  if run.undecided("stack") * 10 > n as u64 {
    run.inconclusive(format!("{} of {} stack cases could not be decided", run.undecided("stack"), n));
  }
  stack::cleanup_scratch();
}
