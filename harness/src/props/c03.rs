//! C03 — ZMTP framing round-trips and is independent of how the stream is cut.
//!
//! Oracle 1: every encoder entry point produces exactly the reference encoder's bytes.
//! Oracle 2: every decoder, fed the stream under every generated segmentation, yields exactly
//!           the original (payload, MORE, COMMAND) sequence, consumes every byte and leaves
//!           nothing buffered.

use crate::engine::{fill, CaseRec, Run, Violation};
use crate::wire::{self, RefFrame};
use bytes::{Bytes, BytesMut};
use proptest::prelude::*;
use rzmq::protocol::zmtp::manual_parser::ZmtpManualParser;
use rzmq::protocol::zmtp::ZmtpCodec;
use rzmq::{FrameBatch, Msg, MsgFlags};
use serde::{Deserialize, Serialize};
use serde_json::json;
use tokio_util::codec::{Decoder, Encoder};

#[derive(Clone, Debug, Serialize, Deserialize)]
pub struct FrameSpec {
  pub len: u32,
  pub seed: u16,
  pub more: bool,
  pub command: bool,
}

#[derive(Clone, Debug, Serialize, Deserialize)]
pub struct Case {
  pub frames: Vec<FrameSpec>,
  /// `new_group[i]` starts a new logical message (FrameBatch) before frame i (i > 0).
  pub new_group: Vec<bool>,
  /// Cut positions as fractions of the stream (monotone mapping) plus header-biased picks.
  pub cuts: Vec<Cut>,
}

#[derive(Clone, Debug, Serialize, Deserialize)]
pub enum Cut {
  /// Absolute fraction of the stream length (x / 65536).
  Frac(u16),
  /// Inside the header of frame (idx mapped monotonically), at byte offset `off` of the header.
  InHeader(u16, u8),
  /// Exactly at the end of frame idx.
  FrameEnd(u16),
}

pub fn len_strategy(max_random: u32) -> impl Strategy<Value = u32> + Clone {
  prop_oneof![
    4 => prop::sample::select(vec![0u32, 1, 2, 254, 255, 256, 257]),
    1 => prop::sample::select(vec![65535u32, 65536, 65537]),
    4 => 0u32..600,
    1 => 0u32..=max_random,
  ]
}

fn frame_strategy(max_random: u32) -> impl Strategy<Value = FrameSpec> + Clone {
  (len_strategy(max_random), any::<u16>(), any::<bool>(), prop::bool::weighted(0.15))
    .prop_map(|(len, seed, more, command)| FrameSpec { len, seed, more, command })
}

fn cut_strategy() -> impl Strategy<Value = Cut> + Clone {
  prop_oneof![
    2 => any::<u16>().prop_map(Cut::Frac),
    3 => (any::<u16>(), 0u8..9).prop_map(|(i, o)| Cut::InHeader(i, o)),
    1 => any::<u16>().prop_map(Cut::FrameEnd),
  ]
}

pub fn case_strategy(max_frames: usize, max_random: u32) -> impl Strategy<Value = Case> + Clone {
  (
    prop::collection::vec(frame_strategy(max_random), 1..=max_frames),
    prop::collection::vec(prop::bool::weighted(0.3), max_frames),
    prop::collection::vec(cut_strategy(), 0..8),
  )
    .prop_map(|(frames, new_group, cuts)| Case { frames, new_group, cuts })
}

pub fn to_ref(frames: &[FrameSpec]) -> Vec<RefFrame> {
  frames
    .iter()
    .map(|f| RefFrame { more: f.more, command: f.command, body: fill(f.len as usize, f.seed as u64) })
    .collect()
}

pub fn to_msg(f: &RefFrame) -> Msg {
  let mut m = Msg::from_vec(f.body.clone());
  let mut fl = MsgFlags::empty();
  if f.more {
    fl |= MsgFlags::MORE;
  }
  if f.command {
    fl |= MsgFlags::COMMAND;
  }
  m.set_flags(fl);
  m
}

pub fn from_msg(m: &Msg) -> RefFrame {
  RefFrame { more: m.is_more(), command: m.is_command(), body: m.data().unwrap_or(&[]).to_vec() }
}

fn group(refs: &[RefFrame], new_group: &[bool]) -> Vec<FrameBatch> {
  let mut out: Vec<FrameBatch> = Vec::new();
  let mut cur = FrameBatch::new();
  for (i, f) in refs.iter().enumerate() {
    if i > 0 && new_group.get(i).copied().unwrap_or(false) && !cur.is_empty() {
      out.push(std::mem::replace(&mut cur, FrameBatch::new()));
    }
    cur.push(to_msg(f));
  }
  if !cur.is_empty() {
    out.push(cur);
  }
  out
}

/// Frame start offsets and header lengths in the reference stream.
fn layout(refs: &[RefFrame]) -> Vec<(usize, usize, usize)> {
  let mut off = 0;
  let mut v = Vec::new();
  for f in refs {
    let hdr = if f.body.len() <= 255 { 2 } else { 9 };
    v.push((off, hdr, f.body.len()));
    off += hdr + f.body.len();
  }
  v
}

fn resolve_cuts(cuts: &[Cut], lay: &[(usize, usize, usize)], total: usize) -> Vec<usize> {
  let mut out: Vec<usize> = cuts
    .iter()
    .map(|c| match c {
      Cut::Frac(x) => (*x as usize * (total + 1)) >> 16,
      Cut::InHeader(i, o) => {
        let (off, hdr, _) = lay[(*i as usize * lay.len()) >> 16];
        off + (*o as usize % hdr).max(1).min(hdr - 1).max(1)
      }
      Cut::FrameEnd(i) => {
        let (off, hdr, n) = lay[(*i as usize * lay.len()) >> 16];
        off + hdr + n
      }
    })
    .filter(|p| *p > 0 && *p < total)
    .collect();
  out.sort_unstable();
  out.dedup();
  out
}

fn chunks<'a>(stream: &'a [u8], cuts: &[usize]) -> Vec<&'a [u8]> {
  let mut v = Vec::new();
  let mut prev = 0;
  for &c in cuts {
    v.push(&stream[prev..c]);
    prev = c;
  }
  v.push(&stream[prev..]);
  v
}

fn viol(check: &str, what: &str, detail: String) -> Violation {
  Violation::new(check, detail).with("entry", what)
}

/// Oracle 1: all encoders equal the reference bytes.
pub fn check_encoders(refs: &[RefFrame], new_group: &[bool], expect: &[u8]) -> Result<(), Violation> {
  let has_command = refs.iter().any(|f| f.command);
  let cmp = |name: &str, got: &[u8]| -> Result<(), Violation> {
    if got != expect {
      let at = got.iter().zip(expect.iter()).position(|(a, b)| a != b).unwrap_or(got.len().min(expect.len()));
      return Err(viol(
        "encoder_bytes",
        name,
        format!("{} produced {} bytes, reference {} bytes; first difference at offset {}", name, got.len(), expect.len(), at),
      ));
    }
    Ok(())
  };
  // E1 codec, frame by frame
  {
    let mut codec = ZmtpCodec::new();
    let mut dst = BytesMut::new();
    for f in refs {
      codec.encode(to_msg(f), &mut dst).map_err(|e| viol("encoder_error", "codec.encode", e.to_string()))?;
    }
    cmp("codec.encode", &dst)?;
  }
  // E2 header-only + payload
  {
    let codec = ZmtpCodec::new();
    let mut dst = BytesMut::new();
    for f in refs {
      let m = to_msg(f);
      codec.encode_header_only(&m, &mut dst).map_err(|e| viol("encoder_error", "codec.encode_header_only", e.to_string()))?;
      dst.extend_from_slice(m.data().unwrap_or(&[]));
    }
    cmp("codec.encode_header_only", &dst)?;
  }
  let batch = group(refs, new_group);
  // E3 contiguous batch framer (two calls on one encoder: buffers are reused)
  {
    let mut enc = rzmq::verif::FrameEncoder::new(16, 64);
    let first = enc.frame_contiguous(&batch).map_err(|e| viol("encoder_error", "frame_contiguous", e.to_string()))?;
    cmp("frame_contiguous", &first)?;
    let again = enc.frame_contiguous(&batch).map_err(|e| viol("encoder_error", "frame_contiguous#2", e.to_string()))?;
    cmp("frame_contiguous(reuse)", &again)?;
    cmp("frame_contiguous(first still intact)", &first)?;
  }
  // E6 pass-through framer batch + multipart
  {
    let mut fr = rzmq::verif::PlainFramer::new(-1, 4, 4096);
    let b = fr.write_msg_batch(&batch).map_err(|e| viol("encoder_error", "NullFramer.write_msg_batch", e.to_string()))?;
    cmp("NullFramer.write_msg_batch", &b)?;
    let mut cat = Vec::new();
    for g in &batch {
      let b = fr.write_msg_multipart(g.clone()).map_err(|e| viol("encoder_error", "NullFramer.write_msg_multipart", e.to_string()))?;
      cat.extend_from_slice(&b);
    }
    cmp("NullFramer.write_msg_multipart", &cat)?;
  }
  // E7 engine entry points (data phase framer of a NULL engine)
  {
    let mut eng = rzmq::verif::engine(false, "PUSH", &[]).map_err(|e| viol("encoder_error", "engine", e.to_string()))?;
    let b = eng.frame_batch(&batch).map_err(|e| viol("encoder_error", "engine.frame_batch", e.to_string()))?;
    cmp("engine.frame_batch", &b)?;
    let mut cat = Vec::new();
    for g in &batch {
      cat.extend_from_slice(&eng.frame_msgs(g.clone()).map_err(|e| viol("encoder_error", "engine.frame_msgs", e.to_string()))?);
    }
    cmp("engine.frame_msgs", &cat)?;
    if !has_command {
      let parts = eng.frame_batch_vectored(&batch).map_err(|e| viol("encoder_error", "engine.frame_batch_vectored", e.to_string()))?;
      let cat: Vec<u8> = parts.iter().flat_map(|p| p.iter().copied()).collect();
      cmp("engine.frame_batch_vectored", &cat)?;
    }
  }
  if !has_command {
    // E4 vectored framer (drops COMMAND by construction; only ever given application data)
    let mut enc = rzmq::verif::FrameEncoder::new(16, 64);
    for round in 0..2 {
      let parts = enc.frame_vectored(&batch).map_err(|e| viol("encoder_error", "frame_vectored", e.to_string()))?;
      let cat: Vec<u8> = parts.iter().flat_map(|p| p.iter().copied()).collect();
      cmp(if round == 0 { "frame_vectored" } else { "frame_vectored(reuse)" }, &cat)?;
    }
    let mut fr = rzmq::verif::PlainFramer::new(-1, 4, 4096);
    let parts = fr.frame_vectored(&batch).map_err(|e| viol("encoder_error", "NullFramer.frame_vectored", e.to_string()))?;
    let cat: Vec<u8> = parts.iter().flat_map(|p| p.iter().copied()).collect();
    cmp("NullFramer.frame_vectored", &cat)?;
    // E5 split header/payload
    let mut cat = Vec::new();
    for f in refs {
      let (h, p) = fr.write_msg_split(to_msg(f)).map_err(|e| viol("encoder_error", "write_msg_split", e.to_string()))?;
      cat.extend_from_slice(&h);
      if let Some(p) = p {
        cat.extend_from_slice(&p);
      }
    }
    cmp("NullFramer.write_msg_split", &cat)?;
  }
  Ok(())
}

fn cmp_frames(name: &str, got: &[RefFrame], want: &[RefFrame], seg: &[usize]) -> Result<(), Violation> {
  if got == want {
    return Ok(());
  }
  let at = got.iter().zip(want.iter()).position(|(a, b)| a != b).unwrap_or(got.len().min(want.len()));
  Err(viol(
    "decoder_frames",
    name,
    format!(
      "{} with cuts {:?}: decoded {} frames, expected {}; first difference at frame {} (got {:?} want {:?})",
      name,
      seg,
      got.len(),
      want.len(),
      at,
      got.get(at).map(|f| (f.more, f.command, f.body.len())),
      want.get(at).map(|f| (f.more, f.command, f.body.len()))
    ),
  ))
}

/// Oracle 2 for one segmentation.
pub fn check_decoders(stream: &[u8], want: &[RefFrame], seg: &[usize]) -> Result<(), Violation> {
  let parts = chunks(stream, seg);
  // D1 manual parser over an accumulating BytesMut
  {
    let mut p = ZmtpManualParser::new(-1);
    let mut acc = BytesMut::new();
    let mut got = Vec::new();
    let mut fed = 0usize;
    for c in &parts {
      acc.extend_from_slice(c);
      fed += c.len();
      loop {
        match p.decode_from_buffer(&mut acc) {
          Ok(Some(m)) => got.push(from_msg(&m)),
          Ok(None) => break,
          Err(e) => return Err(viol("decoder_error", "decode_from_buffer", format!("cuts {:?}: {}", seg, e))),
        }
      }
      // Never a frame before its last byte arrived.
      let (ref_so_far, _) = wire::decode_all(&stream[..fed]);
      if got.len() > ref_so_far.len() {
        return Err(viol("decoder_early", "decode_from_buffer", format!("cuts {:?}: {} frames after {} bytes", seg, got.len(), fed)));
      }
    }
    cmp_frames("decode_from_buffer", &got, want, seg)?;
    if !acc.is_empty() {
      return Err(viol("decoder_leftover", "decode_from_buffer", format!("cuts {:?}: {} bytes left", seg, acc.len())));
    }
  }
  // D2/D3/D4 slice / bytes decoders and peek, over an accumulating Vec
  {
    let p = ZmtpManualParser::new(-1);
    let mut acc: Vec<u8> = Vec::new();
    let mut got2 = Vec::new();
    let mut got3 = Vec::new();
    for c in &parts {
      acc.extend_from_slice(c);
      loop {
        let a = p.decode_frame_from_slice(&acc).map_err(|e| viol("decoder_error", "decode_frame_from_slice", e.to_string()))?;
        let b = p.decode_frame_from_bytes(&Bytes::copy_from_slice(&acc)).map_err(|e| viol("decoder_error", "decode_frame_from_bytes", e.to_string()))?;
        let peek = p.peek_frame_len(&acc).map_err(|e| viol("decoder_error", "peek_frame_len", e.to_string()))?;
        match (a, b) {
          (Some((m2, n2)), Some((m3, n3))) => {
            if n2 != n3 {
              return Err(viol("decoder_consumed", "slice_vs_bytes", format!("cuts {:?}: consumed {} vs {}", seg, n2, n3)));
            }
            if peek != Some(n2) {
              return Err(viol("decoder_consumed", "peek_frame_len", format!("cuts {:?}: peek {:?} vs consumed {}", seg, peek, n2)));
            }
            got2.push(from_msg(&m2));
            got3.push(from_msg(&m3));
            acc.drain(..n2);
          }
          (None, None) => {
            if let Some(n) = peek {
              if n <= acc.len() {
                return Err(viol("decoder_consumed", "peek_frame_len", format!("cuts {:?}: peek says {} of {} available but decoders need more", seg, n, acc.len())));
              }
            }
            break;
          }
          (a, b) => {
            return Err(viol("decoder_frames", "slice_vs_bytes", format!("cuts {:?}: slice {:?} bytes {:?}", seg, a.map(|x| x.1), b.map(|x| x.1))));
          }
        }
      }
    }
    cmp_frames("decode_frame_from_slice", &got2, want, seg)?;
    cmp_frames("decode_frame_from_bytes", &got3, want, seg)?;
    if !acc.is_empty() {
      return Err(viol("decoder_leftover", "decode_frame_from_slice", format!("cuts {:?}: {} bytes left", seg, acc.len())));
    }
  }
  // D5 tokio codec, chunked; D6 primed with the first chunk as prefix
  for primed in [false, true] {
    let mut codec = ZmtpCodec::new();
    let mut acc = BytesMut::new();
    let mut got = Vec::new();
    let name = if primed { "codec.decode(primed)" } else { "codec.decode" };
    for (i, c) in parts.iter().enumerate() {
      if primed && i == 0 {
        codec.prime_with_prefix(BytesMut::from(&c[..]));
        if parts.len() > 1 {
          continue;
        }
      } else {
        acc.extend_from_slice(c);
      }
      loop {
        match codec.decode(&mut acc) {
          Ok(Some(m)) => got.push(from_msg(&m)),
          Ok(None) => break,
          Err(e) => return Err(viol("decoder_error", name, format!("cuts {:?}: {}", seg, e))),
        }
      }
    }
    cmp_frames(name, &got, want, seg)?;
    if !acc.is_empty() {
      return Err(viol("decoder_leftover", name, format!("cuts {:?}: {} bytes left", seg, acc.len())));
    }
  }
  // D7 the pass-through framer's chunk API
  {
    let mut fr = rzmq::verif::PlainFramer::new(-1, 4, 4096);
    let mut acc = BytesMut::new();
    let mut got = Vec::new();
    for c in &parts {
      let ms = fr
        .try_read_msgs_from_bytes(Bytes::copy_from_slice(c), &mut acc)
        .map_err(|e| viol("decoder_error", "NullFramer.try_read_msgs_from_bytes", format!("cuts {:?}: {}", seg, e)))?;
      got.extend(ms.iter().map(from_msg));
    }
    cmp_frames("NullFramer.try_read_msgs_from_bytes", &got, want, seg)?;
    if !acc.is_empty() {
      return Err(viol("decoder_leftover", "NullFramer", format!("cuts {:?}: {} bytes left", seg, acc.len())));
    }
  }
  Ok(())
}

pub fn prop_case(case: &Case, rec: &mut CaseRec) -> Result<(), Violation> {
  let refs = to_ref(&case.frames);
  let stream = wire::encode_frames(&refs);
  let lay = layout(&refs);
  let seg = resolve_cuts(&case.cuts, &lay, stream.len());
  let has_long = refs.iter().any(|f| f.body.len() > 255);
  let has_edge = refs.iter().any(|f| (254..=257).contains(&f.body.len()));
  let cut_in_header = seg.iter().any(|c| lay.iter().any(|(o, h, _)| *c > *o && *c < *o + *h));
  rec.label_if(has_long, "long_frame");
  rec.label_if(has_edge, "edge_255_256");
  rec.label_if(cut_in_header, "cut_in_header");
  rec.label_if(refs.iter().any(|f| f.command), "has_command");
  rec.label_if(refs.iter().any(|f| f.body.len() >= 65535), "ge_64k");
  rec.label_if(refs.iter().any(|f| f.body.is_empty()), "empty_frame");
  rec.label_if(seg.is_empty(), "no_cut");
  rec.nontrivial = has_long || has_edge || cut_in_header;
  check_encoders(&refs, &case.new_group, &stream)?;
  check_decoders(&stream, &refs, &seg)?;
  // Also the two degenerate segmentations: whole stream, and byte-by-byte for short streams.
  check_decoders(&stream, &refs, &[])?;
  if stream.len() <= 300 {
    let all: Vec<usize> = (1..stream.len()).collect();
    check_decoders(&stream, &refs, &all)?;
    rec.label("drip");
  }
  Ok(())
}

/// Bounded-exhaustive sub-space: every single cut position of small streams built from the
/// boundary lengths, every flag combination.
fn single_cut_enumeration(run: &Run) {
  let sub = "single_cut_exhaustive";
  if let Some(case) = run.replay_case(sub) {
    let frames: Vec<FrameSpec> = serde_json::from_value(case["frames"].clone()).unwrap_or_default();
    let cut = case["cut"].as_u64().unwrap_or(0) as usize;
    let refs = to_ref(&frames);
    let stream = wire::encode_frames(&refs);
    if let Err(v) = check_decoders(&stream, &refs, &[cut]) {
      run.report(sub, v, case);
    }
    return;
  }
  if run.is_replay() {
    return;
  }
  let lens: [u32; 7] = [0, 1, 2, 254, 255, 256, 257];
  let mut evals = 0u64;
  // all ordered pairs of boundary lengths x 4 flag combos on the first frame, second frame final
  for (i, &a) in lens.iter().enumerate() {
    for (j, &b) in lens.iter().enumerate() {
      for flags in 0..4u8 {
        let frames = vec![
          FrameSpec { len: a, seed: (i * 7 + j) as u16, more: flags & 1 != 0, command: flags & 2 != 0 },
          FrameSpec { len: b, seed: (j * 7 + i + 100) as u16, more: false, command: false },
        ];
        let refs = to_ref(&frames);
        let stream = wire::encode_frames(&refs);
        let lay = layout(&refs);
        if let Err(v) = check_encoders(&refs, &[false, flags & 1 == 0], &stream) {
          run.report(sub, v, json!({"frames": frames, "cut": 0}));
          return;
        }
        for cut in 1..stream.len() {
          evals += 1;
          let mut rec = CaseRec::default();
          let in_hdr = lay.iter().any(|(o, h, _)| cut > *o && cut < *o + *h);
          rec.nontrivial = in_hdr || a > 255 || b > 255;
          rec.label_if(in_hdr, "cut_in_header");
          let res = check_decoders(&stream, &refs, &[cut]);
          let h = crate::engine::hash_of(&(a, b, flags, cut));
          run.record_case(sub, || json!({"frames": frames, "cut": cut}), &rec, h);
          if let Err(v) = res {
            if !run.report(sub, v, json!({"frames": frames, "cut": cut})) {
              return;
            }
          }
        }
      }
    }
  }
  run.add_subspace("two frames with lengths in {0,1,2,254,255,256,257}^2 x 4 flag combinations x every single cut position", evals, true);
}

pub fn run(run: &mut Run) {
  run.rule = "cases = random frame sequences (1..24 frames; payload lengths from {0,1,2,254,255,256,257,65535,65536,65537}, 0..600 and 0..70000 (1 MiB thorough); MORE/COMMAND flags; grouping into logical messages) x generated cut sets biased into headers and onto frame ends, plus whole-stream and byte-by-byte delivery; exhaustive sub-space: all single cuts of two-frame boundary-length streams. Non-trivial = the sequence has a long (>255) frame, a 254..257 neighbour, or a cut strictly inside a frame header; distinct = hash of the generated case".into();
  run.assumptions = vec![
    "COMMAND-flagged frames are only given to the encoders rzmq uses for commands (codec, contiguous framer); the vectored and split encoders are only ever called with application data".into(),
    "decoders are constructed with MAXMSGSIZE = -1 here (limits are C07)".into(),
    "reference encoder/decoder written from RFC 23/37 is correct".into(),
  ];
  single_cut_enumeration(run);
  let (cases, max_frames, max_random) = match run.tier {
    crate::engine::Tier::Quick => (6000, 24, 70_000),
    crate::engine::Tier::Thorough => (200_000, 24, 1_048_576),
  };
  run.prop("random_frames", cases, 16, 2000, case_strategy(max_frames, max_random), prop_case);
  // coverage-guided stage: arbitrary bytes into the stateful decoder against the reference decoder
  if run.tier == crate::engine::Tier::Thorough || run.replay_case("fuzz_decoders").is_some() {
    crate::fuzzstage::run(run, "decoders", 400_000);
  }
}
