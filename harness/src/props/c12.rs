//! C12 — SUB delivers exactly the messages its current subscriptions match.
//!
//! L1: histories of subscribe / unsubscribe / matches against a multiset model.
//! L2: PUB -> SUBs end to end (c12_l2).

use crate::engine::{CaseRec, Run, Tier, Violation};
use proptest::prelude::*;
use serde::{Deserialize, Serialize};
use std::collections::{BTreeSet, HashMap};

#[derive(Clone, Debug, Serialize, Deserialize)]
pub enum Op {
  Sub(Vec<u8>),
  Unsub(Vec<u8>),
  Match(Vec<u8>),
  AllTopics,
}

pub fn topic_strategy() -> impl Strategy<Value = Vec<u8>> + Clone {
  // small alphabet with shared prefixes, the empty string and binary bytes
  let sym = prop::sample::select(vec![b'a', b'b', 0x00u8, 0xFFu8, b'/']);
  prop_oneof![
    1 => Just(vec![]),
    6 => prop::collection::vec(sym.clone(), 1..5),
    1 => prop::collection::vec(sym, 5..9),
  ]
}

fn op_strategy() -> impl Strategy<Value = Op> + Clone {
  prop_oneof![
    4 => topic_strategy().prop_map(Op::Sub),
    4 => topic_strategy().prop_map(Op::Unsub),
    6 => topic_strategy().prop_map(Op::Match),
    1 => Just(Op::AllTopics),
  ]
}

fn prop_history(ops: &Vec<Op>, rec: &mut CaseRec) -> Result<(), Violation> {
  let trie = rzmq::verif::Trie::new();
  let mut model: HashMap<Vec<u8>, usize> = HashMap::new();
  let mut repeated = false;
  let mut absent_unsub = false;
  for (i, op) in ops.iter().enumerate() {
    match op {
      Op::Sub(t) => {
        trie.subscribe(t);
        let c = model.entry(t.clone()).or_insert(0);
        *c += 1;
        if *c > 1 {
          repeated = true;
        }
      }
      Op::Unsub(t) => {
        trie.unsubscribe(t);
        match model.get_mut(t) {
          Some(c) if *c > 0 => *c -= 1,
          _ => absent_unsub = true,
        }
      }
      Op::Match(m) => {
        let want = model.iter().any(|(s, c)| *c > 0 && m.starts_with(s));
        let got = trie.matches(m);
        if got != want {
          return Err(
            Violation::new("match_differs", format!("step {}: matches({:02x?}) = {}, reference {} with active {:?}", i, m, got, want, model.iter().filter(|(_, c)| **c > 0).collect::<Vec<_>>()))
              .with("layer", "trie"),
          );
        }
      }
      Op::AllTopics => {
        let got: BTreeSet<Vec<u8>> = trie.get_all_topics().into_iter().collect();
        let want: BTreeSet<Vec<u8>> = model.iter().filter(|(_, c)| **c > 0).map(|(s, _)| s.clone()).collect();
        if got != want {
          return Err(Violation::new("topics_differ", format!("step {}: get_all_topics {:?} vs reference {:?}", i, got, want)).with("layer", "trie"));
        }
      }
    }
  }
  let active: Vec<&Vec<u8>> = model.iter().filter(|(_, c)| **c > 0).map(|(s, _)| s).collect();
  let nested = active.iter().any(|a| active.iter().any(|b| a != b && b.starts_with(a)));
  rec.nontrivial = nested || repeated;
  rec.label_if(nested, "nested_prefixes");
  rec.label_if(repeated, "repeated_topic");
  rec.label_if(absent_unsub, "unsubscribe_absent");
  rec.label_if(model.get(&vec![]).map(|c| *c > 0).unwrap_or(false), "empty_subscription");
  Ok(())
}

pub fn run(run: &mut Run) {
  run.rule = "L1: histories of 1..60 operations subscribe(t) / unsubscribe(t) / matches(m) / get_all_topics over byte strings of length 0..8 from the alphabet {a, b, 0x00, 0xFF, /}, checked step by step against a HashMap<topic,count> multiset; L2: PUB with 1..3 SUBs over tcp/ipc/inproc, subscription changes in quiescent windows delimited by markers, multipart messages, a stalled subscriber (c12_l2). Non-trivial = the history ends with two nested active prefixes or subscribed a topic more than once (L2: a non-matching message was published). Distinct = hash of the case".into();
  run.assumptions = vec!["single-threaded histories at L1; the repository's own tests cover concurrent mutation of the trie".into()];
  let n = match run.tier {
    Tier::Quick => 30_000,
    Tier::Thorough => 1_000_000,
  };
  run.prop("trie_model", n, 16, 2000, prop::collection::vec(op_strategy(), 1..60), prop_history);
  crate::props::c12_l2::run(run);
}
