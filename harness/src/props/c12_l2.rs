//! C12, stack level: PUB -> 1..3 SUB end to end.
//!
//! Filtering happens where the SUB's session enqueues into the socket, so subscription changes are
//! only made in quiescent windows: after every publish phase the PUB sends a marker on a control
//! prefix every SUB subscribed to at start and the harness waits until each SUB has read it; only
//! then are subscriptions changed and the next phase published. Within a phase the expected
//! delivery is therefore exactly the published messages matching the SUB's current reference set,
//! in publication order, once.
//! A second scenario adds a subscriber that never reads (and one raw peer that resets): the
//! publisher's send() must not block and the reading subscriber must keep receiving.

use crate::engine::{fill, CaseRec, Run, Tier, Violation};
use crate::props::c12::topic_strategy;
use crate::stack::{self, l2_result, run_l2, Rt, Transport, L2};
use crate::wire;
use proptest::prelude::*;
use rzmq::socket::options as opt;
use rzmq::{Msg, MsgFlags};
use serde::{Deserialize, Serialize};
use std::collections::HashMap;
use std::time::{Duration, Instant};

const CTRL: &[u8] = b"\x01C!";

#[derive(Clone, Debug, Serialize, Deserialize)]
pub struct Phase {
  /// per SUB: subscription changes applied at the start of the phase
  pub changes: Vec<Vec<(bool, Vec<u8>)>>,
  /// published messages: (first frame = topic ++ tail, extra frames)
  pub publishes: Vec<(Vec<u8>, u8)>,
}

#[derive(Clone, Debug, Serialize, Deserialize)]
pub struct Case {
  pub transport: Transport,
  pub rt: Rt,
  pub n_subs: u8,
  pub phases: Vec<Phase>,
}

fn case_strategy() -> impl Strategy<Value = Case> + Clone {
  let change = (prop::bool::weighted(0.6), topic_strategy());
  let publish = (topic_strategy(), 0u8..3);
  let phase = (prop::collection::vec(prop::collection::vec(change, 0..4), 3), prop::collection::vec(publish, 1..10)).prop_map(|(changes, publishes)| Phase { changes, publishes });
  (
    prop::sample::select(vec![Transport::Tcp, Transport::Ipc, Transport::Inproc]),
    prop::sample::select(vec![Rt::Current, Rt::Multi(2)]),
    1u8..=3,
    prop::collection::vec(phase, 1..5),
  )
    .prop_map(|(transport, rt, n_subs, phases)| Case { transport, rt, n_subs, phases })
}

/// Reads from `sub` until the marker of `phase` arrives. Returns the non-control messages.
async fn read_until_marker(sub: &rzmq::Socket, phase: u32) -> Result<Vec<Vec<Vec<u8>>>, String> {
  let mut got = Vec::new();
  loop {
    match sub.recv_multipart().await {
      Ok(frames) => {
        let bodies: Vec<Vec<u8>> = frames.iter().map(|m| m.data().unwrap_or(&[]).to_vec()).collect();
        if bodies[0].starts_with(CTRL) {
          let p = u32::from_be_bytes(bodies[0][CTRL.len()..CTRL.len() + 4].try_into().unwrap());
          if p == phase {
            return Ok(got);
          }
          continue; // stale marker of an earlier phase
        }
        got.push(bodies);
      }
      Err(e) => return Err(format!("marker {} never arrived: {}", phase, e)),
    }
  }
}

fn marker(phase: u32) -> Msg {
  let mut b = CTRL.to_vec();
  b.extend_from_slice(&phase.to_be_bytes());
  Msg::from_vec(b)
}

async fn body(c: &Case) -> L2 {
  let ctx = match rzmq::Context::new() {
    Ok(x) => x,
    Err(e) => return L2::Inconclusive(e.to_string()),
  };
  let (publisher, ep) = match stack::bound(&ctx, "PUB", c.transport, &[stack::i32opt(opt::SNDTIMEO, 5000)]).await {
    Ok(x) => x,
    Err(e) => return L2::Inconclusive(e),
  };
  let mut subs = Vec::new();
  for _ in 0..c.n_subs {
    let s = match ctx.socket(stack::stype("SUB")) {
      Ok(s) => s,
      Err(e) => return L2::Inconclusive(e.to_string()),
    };
    if stack::set_opts(&s, &[stack::i32opt(opt::RCVTIMEO, 8000)]).await.is_err() {
      return L2::Inconclusive("set_opts".into());
    }
    if let Err(e) = s.set_option_raw(opt::SUBSCRIBE, CTRL).await {
      return L2::Inconclusive(format!("subscribe ctrl: {}", e));
    }
    if let Err(e) = s.connect(&ep).await {
      return L2::Inconclusive(e.to_string());
    }
    subs.push(s);
  }
  // Phase 0: publish the start marker until every SUB has seen one (late-joiner window).
  {
    let publisher = publisher.clone();
    let feeder = tokio::spawn(async move {
      for _ in 0..200 {
        if publisher.send(marker(0)).await.is_err() {
          break;
        }
        tokio::time::sleep(Duration::from_millis(15)).await;
      }
    });
    for s in &subs {
      if let Err(e) = read_until_marker(s, 0).await {
        feeder.abort();
        return L2::Inconclusive(format!("start-up: {}", e));
      }
    }
    feeder.abort();
    let _ = feeder.await;
  }
  let mut models: Vec<HashMap<Vec<u8>, usize>> = vec![HashMap::new(); c.n_subs as usize];
  let mut seq = 0u32;
  for (pi, ph) in c.phases.iter().enumerate() {
    let phase_no = pi as u32 + 1;
    // 1. subscription changes (quiescent: everything published so far has been read)
    for (si, s) in subs.iter().enumerate() {
      for (is_sub, topic) in ph.changes.get(si).cloned().unwrap_or_default() {
        // never touch the control prefix
        if CTRL.starts_with(&topic) && !topic.is_empty() || topic.starts_with(CTRL) {
          continue;
        }
        let r = s.set_option_raw(if is_sub { opt::SUBSCRIBE } else { opt::UNSUBSCRIBE }, &topic).await;
        if let Err(e) = r {
          return L2::Inconclusive(format!("(un)subscribe failed: {}", e));
        }
        let m = &mut models[si];
        if is_sub {
          *m.entry(topic).or_insert(0) += 1;
        } else if let Some(cnt) = m.get_mut(&topic) {
          if *cnt > 0 {
            *cnt -= 1;
          }
        }
      }
    }
    // 2. publish
    let mut published: Vec<Vec<Vec<u8>>> = Vec::new();
    for (topic, extra) in &ph.publishes {
      let mut first = topic.clone();
      first.extend_from_slice(&seq.to_be_bytes());
      seq += 1;
      let mut frames = vec![first];
      for k in 0..*extra {
        // later frames start with a byte string that would match many subscriptions: the
        // filter must look at the first frame only
        let mut f = vec![b'a', b'a'];
        f.extend(fill(k as usize * 3, seq as u64));
        frames.push(f);
      }
      let n = frames.len();
      let msgs: Vec<Msg> = frames
        .iter()
        .enumerate()
        .map(|(i, b)| {
          let mut m = Msg::from_vec(b.clone());
          if i + 1 < n {
            m.set_flags(MsgFlags::MORE);
          }
          m
        })
        .collect();
      let t = Instant::now();
      if let Err(e) = publisher.send_multipart(msgs).await {
        return L2::Inconclusive(format!("publish failed: {}", e));
      }
      if t.elapsed() > Duration::from_secs(2) {
        return L2::Violation(Violation::new("publisher_blocked", format!("PUB send took {:?} with only reading subscribers", t.elapsed())).with("layer", "stack").with("stalled_subscriber", false));
      }
      published.push(frames);
    }
    if let Err(e) = publisher.send(marker(phase_no)).await {
      return L2::Inconclusive(format!("marker publish failed: {}", e));
    }
    // 3. every SUB reads up to the marker; compare with the reference
    for (si, s) in subs.iter().enumerate() {
      let got = match read_until_marker(s, phase_no).await {
        Ok(g) => g,
        Err(e) => return L2::Inconclusive(e),
      };
      let m = &models[si];
      // the control prefix subscription is always active
      let want: Vec<Vec<Vec<u8>>> =
        published.iter().filter(|f| f[0].starts_with(CTRL) || m.iter().any(|(t, c)| *c > 0 && f[0].starts_with(t))).cloned().collect();
      if got != want {
        let show = |v: &Vec<Vec<Vec<u8>>>| v.iter().map(|f| format!("{:02x?}x{}", &f[0][..f[0].len().min(8)], f.len())).collect::<Vec<_>>();
        return L2::Violation(
          Violation::new(
            "sub_delivery_differs",
            format!("{} phase {} SUB {}: active {:?}; delivered {:?}; expected {:?}", c.transport.name(), phase_no, si, m.iter().filter(|(_, c)| **c > 0).map(|(t, _)| t.clone()).collect::<Vec<_>>(), show(&got), show(&want)),
          )
          .with("layer", "stack")
          .with("transport", c.transport.name()),
        );
      }
    }
  }
  for s in &subs {
    let _ = s.close().await;
  }
  let _ = publisher.close().await;
  stack::term(&ctx).await;
  L2::Ok
}

fn prop_case(run: &Run, c: &Case, rec: &mut CaseRec) -> Result<(), Violation> {
  // non-trivial iff some SUB's reference set rejects some published message
  let mut models: Vec<HashMap<Vec<u8>, usize>> = vec![HashMap::new(); c.n_subs as usize];
  let mut rejected = false;
  for ph in &c.phases {
    for si in 0..c.n_subs as usize {
      for (is_sub, t) in ph.changes.get(si).cloned().unwrap_or_default() {
        if is_sub {
          *models[si].entry(t).or_insert(0) += 1;
        } else if let Some(c) = models[si].get_mut(&t) {
          *c = c.saturating_sub(1);
        }
      }
      for (t, _) in &ph.publishes {
        if !models[si].iter().any(|(s, c)| *c > 0 && t.starts_with(s)) {
          rejected = true;
        }
      }
    }
  }
  rec.nontrivial = rejected;
  rec.label_if(rejected, "non_matching_published");
  rec.label(c.transport.name());
  rec.label_if(c.phases.iter().any(|p| p.publishes.iter().any(|(_, e)| *e > 0)), "multipart");
  let r = run_l2(c.rt, Duration::from_secs(60), body(c));
  l2_result(run, "stack", r)
}

// --- stalled / vanished subscriber ---------------------------------------------------------------------

#[derive(Clone, Debug, Serialize, Deserialize)]
pub struct StallCase {
  pub transport: Transport,
  pub msg_kib: u16,
  pub count: u16,
  pub raw_reset: bool,
}

async fn stall_body(c: &StallCase) -> L2 {
  let ctx = match rzmq::Context::new() {
    Ok(x) => x,
    Err(e) => return L2::Inconclusive(e.to_string()),
  };
  let popts = vec![stack::i32opt(opt::SNDHWM, 4), stack::i32opt(opt::SNDBUF, 8192), stack::i32opt(opt::SNDTIMEO, 4000)];
  let (publisher, ep) = match stack::bound(&ctx, "PUB", c.transport, &popts).await {
    Ok(x) => x,
    Err(e) => return L2::Inconclusive(e),
  };
  let mk_sub = |rcvhwm: i32| {
    let ctx = ctx.clone();
    let ep = ep.clone();
    async move {
      let s = ctx.socket(stack::stype("SUB")).map_err(|e| e.to_string())?;
      stack::set_opts(&s, &[stack::i32opt(opt::RCVTIMEO, 8000), stack::i32opt(opt::RCVHWM, rcvhwm), stack::i32opt(opt::RCVBUF, 8192)]).await?;
      s.set_option_raw(opt::SUBSCRIBE, b"").await.map_err(|e| e.to_string())?;
      s.connect(&ep).await.map_err(|e| e.to_string())?;
      Ok::<_, String>(s)
    }
  };
  let reader = match mk_sub(1000).await {
    Ok(s) => s,
    Err(e) => return L2::Inconclusive(e),
  };
  let stalled = match mk_sub(1).await {
    Ok(s) => s,
    Err(e) => return L2::Inconclusive(e),
  };
  // a raw SUB peer that subscribes to everything and then vanishes with a reset
  let mut raw = None;
  if c.raw_reset && c.transport != Transport::Inproc {
    if let Ok(mut r) = stack::raw_connect(&ep).await {
      let mut hs = wire::greeting_v3(0, "NULL", false);
      wire::encode_frame(&wire::ready("SUB", None), &mut hs);
      wire::encode_frame(&wire::RefFrame::data(vec![1], false), &mut hs);
      let _ = r.write_all(&hs).await;
      raw = Some(r);
    }
  }
  // wait until both rzmq subscribers are attached: the reader sees a probe; give the stalled one time
  for _ in 0..100 {
    let _ = publisher.send(Msg::from_static(b"probe")).await;
    if let Ok(Ok(_)) = tokio::time::timeout(Duration::from_millis(30), reader.recv()).await {
      break;
    }
  }
  tokio::time::sleep(Duration::from_millis(200)).await;
  if let Some(r) = raw.take() {
    r.reset();
  }
  // drain probes
  while let Ok(Ok(_)) = tokio::time::timeout(Duration::from_millis(50), reader.recv()).await {}
  let reader2 = reader.clone();
  let total = c.count as u32;
  let consumer = tokio::spawn(async move {
    let mut seen = 0u32;
    let mut last = Instant::now();
    let mut worst_gap = Duration::ZERO;
    while seen < total {
      match reader2.recv().await {
        Ok(m) => {
          if m.size() >= 4 {
            seen += 1;
            worst_gap = worst_gap.max(last.elapsed());
            last = Instant::now();
          }
        }
        Err(_) => break,
      }
    }
    (seen, worst_gap)
  });
  let payload = fill(c.msg_kib as usize * 1024, 3);
  let mut worst_send = Duration::ZERO;
  let mut blocked_at = None;
  for i in 0..c.count {
    let mut b = (i as u32).to_be_bytes().to_vec();
    b.extend_from_slice(&payload);
    let t = Instant::now();
    let r = publisher.send(Msg::from_vec(b)).await;
    let el = t.elapsed();
    worst_send = worst_send.max(el);
    if el > Duration::from_secs(2) {
      blocked_at = Some((i, el, r.is_ok()));
      break;
    }
  }
  let verdict = if let Some((i, el, ok)) = blocked_at {
    consumer.abort();
    L2::Violation(
      Violation::new(
        "publisher_blocked",
        format!("{}: PUB.send #{} took {:?} (ok={}) while one subscriber never reads (SNDHWM 4, {} KiB messages); the reading subscriber is starved meanwhile", c.transport.name(), i, el, ok, c.msg_kib),
      )
      .with("layer", "stack")
      .with("stalled_subscriber", true),
    )
  } else {
    match tokio::time::timeout(Duration::from_secs(10), consumer).await {
      Ok(Ok((seen, gap))) if seen == total => {
        if gap > Duration::from_secs(3) {
          L2::Violation(Violation::new("reader_starved", format!("reading subscriber waited {:?} between two messages", gap)).with("layer", "stack").with("stalled_subscriber", true))
        } else {
          L2::Ok
        }
      }
      Ok(Ok((seen, _))) => L2::Violation(
        Violation::new("reader_lost_messages", format!("reading subscriber (RCVHWM 1000, always reading) received {} of {} messages", seen, total)).with("layer", "stack").with("stalled_subscriber", true),
      ),
      _ => L2::Inconclusive("reader did not finish".into()),
    }
  };
  let _ = stalled.close().await;
  let _ = reader.close().await;
  let _ = publisher.close().await;
  stack::term(&ctx).await;
  verdict
}

fn prop_stall(run: &Run, c: &StallCase, rec: &mut CaseRec) -> Result<(), Violation> {
  rec.nontrivial = true;
  rec.label(c.transport.name());
  rec.label_if(c.raw_reset, "raw_peer_reset");
  let r = run_l2(Rt::Multi(2), Duration::from_secs(60), stall_body(c));
  l2_result(run, "stalled_subscriber", r)
}


// --- a subscriber that falls behind ------------------------------------------------------------------

/// A SUB with a tiny receive queue that is idle while the publisher bursts matching and
/// non-matching messages. The publisher may drop (C12 allows that), but what the subscriber gets
/// afterwards is in publication order, without duplicates, and only matching messages.
#[derive(Clone, Debug, Serialize, Deserialize)]
pub struct SlowCase {
  pub transport: Transport,
  pub rcvhwm: u8,
  pub burst: u16,
  pub idle_ms: u16,
  pub frames: u8,
}

async fn slow_body(c: &SlowCase) -> L2 {
  let ctx = match rzmq::Context::new() {
    Ok(x) => x,
    Err(e) => return L2::Inconclusive(e.to_string()),
  };
  let (publisher, ep) = match stack::bound(&ctx, "PUB", c.transport, &[stack::i32opt(opt::SNDHWM, 2000), stack::i32opt(opt::SNDTIMEO, 20)]).await {
    Ok(x) => x,
    Err(e) => return L2::Inconclusive(e),
  };
  let sub = match ctx.socket(stack::stype("SUB")) {
    Ok(s) => s,
    Err(e) => return L2::Inconclusive(e.to_string()),
  };
  if let Err(e) = stack::set_opts(&sub, &[stack::i32opt(opt::RCVTIMEO, 1200), stack::i32opt(opt::RCVHWM, c.rcvhwm as i32)]).await {
    return L2::Inconclusive(e);
  }
  let _ = sub.set_option_raw(opt::SUBSCRIBE, b"k").await;
  if let Err(e) = sub.connect(&ep).await {
    return L2::Inconclusive(e.to_string());
  }
  // wait until the subscription is effective
  let mut through = false;
  for _ in 0..250 {
    let _ = publisher.send(Msg::from_static(b"kprobe")).await;
    if let Ok(Ok(_)) = tokio::time::timeout(Duration::from_millis(20), sub.recv()).await {
      through = true;
      break;
    }
  }
  if !through {
    return L2::Inconclusive("subscription never became effective".into());
  }
  while let Ok(Ok(_)) = tokio::time::timeout(Duration::from_millis(150), sub.recv()).await {}
  // burst while the subscriber is idle
  for q in 0..c.burst as u32 {
    let mut m: Vec<Msg> = vec![Msg::from_vec(format!("k{:06}", q).into_bytes())];
    for f in 1..c.frames {
      m.push(Msg::from_vec(vec![f; 10]));
    }
    let last = m.len() - 1;
    for (i, x) in m.iter_mut().enumerate() {
      if i < last {
        x.set_flags(rzmq::MsgFlags::MORE);
      }
    }
    let _ = publisher.send_multipart(m).await;
    let _ = publisher.send(Msg::from_vec(format!("x{:06}", q).into_bytes())).await;
  }
  tokio::time::sleep(Duration::from_millis(c.idle_ms as u64)).await;
  let mut seen: Vec<u32> = Vec::new();
  let mut verdict = L2::Ok;
  let v = |check: &str, d: String| L2::Violation(Violation::new(check, d).with("layer", "stack").with("slow_subscriber", true));
  loop {
    match sub.recv_multipart().await {
      Ok(fr) => {
        let first = fr.iter().next().map(|m| m.data().unwrap_or(&[]).to_vec()).unwrap_or_default();
        if first.first() != Some(&b'k') {
          verdict = v("delivered_without_matching_subscription", format!("the subscriber to \"k\" received a message starting with {:?}", String::from_utf8_lossy(&first[..first.len().min(8)])));
          break;
        }
        if fr.len() != c.frames as usize {
          verdict = v("truncated_message_delivered", format!("a {}-frame message arrived with {} frames", c.frames, fr.len()));
          break;
        }
        if let Ok(q) = String::from_utf8_lossy(&first[1..]).parse::<u32>() {
          if let Some(l) = seen.last() {
            if q <= *l {
              verdict = v("publication_order_broken", format!("message {} was delivered after {} (RCVHWM {}, burst of {} while the subscriber was idle); delivered so far {:?}", q, l, c.rcvhwm, c.burst, &seen[seen.len().saturating_sub(8)..]));
              break;
            }
          }
          seen.push(q);
        }
      }
      Err(_) => break,
    }
  }
  let _ = sub.close().await;
  let _ = publisher.close().await;
  stack::term(&ctx).await;
  if seen.is_empty() && matches!(verdict, L2::Ok) {
    return L2::Inconclusive("nothing was delivered".into());
  }
  verdict
}

pub fn run(run: &Run) {
  let (n, n_stall) = match run.tier {
    Tier::Quick => (40, 4),
    Tier::Thorough => (1000, 40),
  };
  run.prop("stack", n, 8, 10, case_strategy(), |c, rec| prop_case(run, c, rec));
  let stall = (prop::sample::select(vec![Transport::Tcp, Transport::Ipc]), prop::sample::select(vec![64u16, 128, 256]), 40u16..120, any::<bool>())
    .prop_map(|(transport, msg_kib, count, raw_reset)| StallCase { transport, msg_kib, count, raw_reset });
  run.prop("stalled_subscriber", n_stall, 2, 2, stall, |c, rec| prop_stall(run, c, rec));
  let slow = (prop::sample::select(vec![Transport::Tcp, Transport::Ipc, Transport::Inproc]), prop::sample::select(vec![1u8, 2, 4, 16]), 50u16..400, prop::sample::select(vec![50u16, 300]), 1u8..4)
    .prop_map(|(transport, rcvhwm, burst, idle_ms, frames)| SlowCase { transport, rcvhwm, burst, idle_ms, frames });
  run.prop("slow_subscriber_order", n_stall * 3, 4, 4, slow, |c, rec: &mut crate::engine::CaseRec| {
    rec.nontrivial = c.burst as u32 > c.rcvhwm as u32 * 3;
    rec.label(c.transport.name());
    let r = stack::run_l2(stack::Rt::Multi(2), Duration::from_secs(60), slow_body(c));
    l2_result(run, "slow_subscriber_order", r)
  });
  if run.undecided("stack") * 10 > n as u64 * 2 {
    run.inconclusive(format!("{} of {} stack cases could not be decided", run.undecided("stack"), n));
  }
  stack::cleanup_scratch();
}
