//! C15 — LINGER governs what happens to accepted messages at close.
//!
//! L2. A PUSH (or DEALER) sends a burst to a reading PULL (DEALER) and is closed / terminated at
//! once with a generated LINGER. Whatever LINGER is, everything received must be whole, intact,
//! in order and not duplicated; with LINGER -1 or ample, everything accepted must be received;
//! LINGER 0 returns promptly; a bounded LINGER bounds close+term.

use crate::engine::{CaseRec, Run, Tier, Violation};
use crate::stack::{self, acc_message, l2_result, parse_acc, run_l2, Rt, Transport, L2};
use proptest::prelude::*;
use rzmq::socket::options as opt;
use rzmq::socket::SocketEvent;
use serde::{Deserialize, Serialize};
use std::time::{Duration, Instant};

#[derive(Clone, Copy, Debug, Serialize, Deserialize, PartialEq, Eq)]
pub enum CloseHow {
  Close,
  Term,
  CloseThenTerm,
}

#[derive(Clone, Debug, Serialize, Deserialize)]
pub struct Case {
  pub transport: Transport,
  pub pair: (String, String),
  pub linger: i32,
  pub count: u16,
  pub frame_kib: u16,
  pub frames: u8,
  pub sndhwm: u16,
  pub how: CloseHow,
  pub reader_delay_ms: u8,
  pub rt: Rt,
  /// the peer does not read at all until close/term has returned, and the sender floods until a
  /// send fails: the sending session is left holding framed data it cannot write (only with
  /// LINGER 0 or a short bounded LINGER, over tcp/ipc)
  #[serde(default)]
  pub stalled_reader: bool,
}

fn case_strategy() -> impl Strategy<Value = Case> + Clone {
  (
    prop::sample::select(vec![Transport::Tcp, Transport::Ipc, Transport::Inproc]),
    prop::sample::select(vec![("PUSH", "PULL"), ("DEALER", "DEALER")]),
    prop::sample::select(vec![-1i32, -1, 0, 1, 50, 500, 10_000, 10_000]),
    prop_oneof![Just(1u16), 2u16..40, 40u16..600],
    prop::sample::select(vec![0u16, 1, 4, 64, 256]),
    1u8..4,
    prop::sample::select(vec![4u16, 64, 1000]),
    prop::sample::select(vec![CloseHow::Close, CloseHow::Term, CloseHow::CloseThenTerm]),
    prop::sample::select(vec![0u8, 0, 2, 20]),
    (prop::sample::select(vec![Rt::Current, Rt::Multi(2)]), prop::bool::weighted(0.4)),
  )
    .prop_map(|(transport, (a, b), linger, count, frame_kib, frames, sndhwm, how, reader_delay_ms, (rt, stalled))| Case {
      transport,
      pair: (a.into(), b.into()),
      linger,
      count: if frame_kib >= 64 { count.min(80) } else { count },
      frame_kib,
      frames,
      sndhwm,
      how,
      reader_delay_ms,
      rt,
      stalled_reader: stalled && transport != Transport::Inproc && (0..=500).contains(&linger),
    })
}

async fn body(c: &Case) -> L2 {
  // two contexts: the sender's is terminated, the receiver's keeps running
  let rctx = match rzmq::Context::new() {
    Ok(x) => x,
    Err(e) => return L2::Inconclusive(e.to_string()),
  };
  let sctx = if c.transport == Transport::Inproc {
    rctx.clone()
  } else {
    match rzmq::Context::new() {
      Ok(x) => x,
      Err(e) => return L2::Inconclusive(e.to_string()),
    }
  };
  let (receiver, ep) = match stack::bound(&rctx, &c.pair.1, c.transport, &[stack::i32opt(opt::RCVTIMEO, 1500), stack::i32opt(opt::RCVHWM, 1000)]).await {
    Ok(x) => x,
    Err(e) => return L2::Inconclusive(e),
  };
  let sender = match sctx.socket(stack::stype(&c.pair.0)) {
    Ok(s) => s,
    Err(e) => return L2::Inconclusive(e.to_string()),
  };
  let sopts = vec![stack::i32opt(opt::LINGER, c.linger), stack::i32opt(opt::SNDHWM, c.sndhwm as i32), stack::i32opt(opt::SNDTIMEO, if c.stalled_reader { 300 } else { 5000 })];
  if let Err(e) = stack::set_opts(&sender, &sopts).await {
    return L2::Inconclusive(e);
  }
  let mon = sender.monitor_default().await.ok();
  if let Err(e) = sender.connect(&ep).await {
    return L2::Inconclusive(e.to_string());
  }
  if c.transport != Transport::Inproc {
    if let Some(m) = &mon {
      if stack::wait_event(m, Duration::from_secs(5), |e| matches!(e, SocketEvent::HandshakeSucceeded { .. })).await.is_none() {
        return L2::Inconclusive("no HandshakeSucceeded".into());
      }
    }
  } else {
    tokio::time::sleep(Duration::from_millis(30)).await;
  }
  // reader
  let rcv = receiver.clone();
  let delay = c.reader_delay_ms;
  let go = std::sync::Arc::new(tokio::sync::Notify::new());
  let (go2, stalled) = (go.clone(), c.stalled_reader);
  let reader = tokio::spawn(async move {
    let mut got: Vec<Vec<Vec<u8>>> = Vec::new();
    if stalled {
      go2.notified().await;
    }
    loop {
      match rcv.recv_multipart().await {
        Ok(frames) => {
          got.push(frames.iter().map(|m| m.data().unwrap_or(&[]).to_vec()).collect());
          if delay > 0 {
            tokio::time::sleep(Duration::from_millis(delay as u64)).await;
          }
        }
        Err(_) => break, // idle for RCVTIMEO: nothing more is coming (the sender has terminated)
      }
    }
    got
  });
  // burst
  let sizes: Vec<usize> = (0..c.frames).map(|_| c.frame_kib as usize * 1024).collect();
  let mut accepted = 0u32;
  let sizes = if c.stalled_reader { vec![16 * 1024; c.frames.max(1) as usize] } else { sizes };
  for i in 0..(if c.stalled_reader { 6000 } else { c.count }) {
    match sender.send_multipart(acc_message(1, i as u32, &sizes)).await {
      Ok(()) => accepted += 1,
      Err(_) => break,
    }
  }
  // close at once
  let t = Instant::now();
  let close_res = tokio::time::timeout(Duration::from_secs(40), async {
    match c.how {
      CloseHow::Close => {
        let _ = sender.close().await;
      }
      CloseHow::Term => {}
      CloseHow::CloseThenTerm => {
        let _ = sender.close().await;
      }
    }
    if c.how != CloseHow::Close || c.transport != Transport::Inproc {
      if c.transport != Transport::Inproc {
        let _ = sctx.term().await;
      }
    }
  })
  .await;
  let took = t.elapsed();
  go.notify_one();
  let v = |check: &str, d: String| {
    L2::Violation(
      Violation::new(check, d)
        .with("layer", "stack")
        .with("transport", c.transport.name())
        .with("stalled_reader", c.stalled_reader)
        .with("linger", if c.linger < 0 { "infinite".to_string() } else if c.linger == 0 { "zero".to_string() } else if c.linger >= 10_000 { "ample".to_string() } else { "short".to_string() }),
    )
  };
  if close_res.is_err() {
    return v("close_did_not_return", format!("close/term still running after 40 s (LINGER {})", c.linger));
  }
  let got = match tokio::time::timeout(Duration::from_secs(60), reader).await {
    Ok(Ok(g)) => g,
    _ => return L2::Inconclusive("reader did not finish".into()),
  };
  // whatever arrived must be whole, intact, in order, once
  let mut last_seq: Option<u32> = None;
  for (k, m) in got.iter().enumerate() {
    if m.len() != c.frames as usize {
      return v("truncated_message_delivered", format!("message {} arrived with {} of {} frames (LINGER {})", k, m.len(), c.frames, c.linger));
    }
    for (fi, f) in m.iter().enumerate() {
      match parse_acc(f) {
        Err(e) => return v("corrupted_message_delivered", format!("message {} frame {}: {} (LINGER {})", k, fi, e, c.linger)),
        Ok(a) => {
          if a.frame_idx as usize != fi || a.frame_cnt != c.frames as u16 {
            return v("truncated_message_delivered", format!("message {} frame {} carries index {}/{}", k, fi, a.frame_idx, a.frame_cnt));
          }
          if fi == 0 {
            if let Some(l) = last_seq {
              if a.msg_seq <= l {
                return v("duplicate_or_reordered", format!("message seq {} after {}", a.msg_seq, l));
              }
            }
            last_seq = Some(a.msg_seq);
          }
        }
      }
    }
  }
  // LINGER semantics
  // generous on purpose: what has to be excluded is waiting for the peer or for a linger period
  if c.linger == 0 && took > Duration::from_secs(5) {
    return v("linger_zero_close_slow", format!("LINGER 0: close/term took {:?}", took));
  }
  if c.linger > 0 && took > Duration::from_millis(c.linger as u64) + Duration::from_secs(2) {
    return v("linger_bound_exceeded", format!("LINGER {} ms: close/term took {:?}", c.linger, took));
  }
  let must_deliver_all = c.linger < 0 || c.linger >= 10_000;
  if must_deliver_all && (got.len() as u32) < accepted {
    return v(
      "accepted_messages_discarded_at_close",
      format!(
        "{} {}->{} LINGER {}: {} messages accepted by send(), peer (reading) received {}; close/term took {:?} ({} x {} KiB frames x{}, SNDHWM {}, {:?})",
        c.transport.name(),
        c.pair.0,
        c.pair.1,
        c.linger,
        accepted,
        got.len(),
        took,
        c.count,
        c.frame_kib,
        c.frames,
        c.sndhwm,
        c.how
      ),
    );
  }
  let _ = receiver.close().await;
  stack::term(&rctx).await;
  L2::Ok
}

pub fn run(run: &mut Run) {
  run.rule = "cases = (tcp|ipc|inproc) x (PUSH->PULL | DEALER->DEALER) x LINGER in {-1,0,1,50,500,10000} x burst of 1..600 messages of 1..3 frames of {0,1,4,64,256} KiB x SNDHWM in {4,64,1000} x close() | term() | close()+term() immediately after the burst x reader pacing 0/2/20 ms per message x runtime; 40% of the tcp/ipc cases with LINGER 0..500 use a peer that does not read until close/term has returned while the sender floods until a send fails. Receiver reconstruction from accounting frames (crc, seq, frame index/count). Non-trivial = more than one message was accepted before the close. Distinct = hash of the case".into();
  run.assumptions = vec![
    "the receiver stops after 1.5 s without traffic, after the sender's context has terminated (nothing more can be in flight but kernel buffers)".into(),
    "'ample' LINGER is 10 s for a transfer that takes well under a second with a reading peer".into(),
    "over inproc sender and receiver share the context, so only close() is exercised there".into(),
  ];
  let n = match run.tier {
    Tier::Quick => 40,
    Tier::Thorough => 800,
  };
  run.prop("linger", n, 6, 6, case_strategy(), |c, rec: &mut CaseRec| {
    rec.nontrivial = c.count > 1;
    rec.label(c.transport.name());
    rec.label(match c.linger {
      -1 => "linger_infinite",
      0 => "linger_zero",
      10_000 => "linger_ample",
      _ => "linger_short",
    });
    rec.label_if(c.frame_kib >= 64, "beyond_kernel_buffers");
    rec.label_if(c.stalled_reader, "peer_not_reading_until_closed");
    let r = run_l2(c.rt, Duration::from_secs(150), body(c));
    l2_result(run, "linger", r)
  });
  stack::cleanup_scratch();
}
