//! C17 — one connection's failure stays local; lost outbound connections come back.
//!
//! L1: the reconnect back-off arithmetic for all (RECONNECT_IVL, RECONNECT_IVL_MAX, attempts).
//! L2: fault sequences against real sockets (c17_l2).

use crate::engine::{CaseRec, Run, Tier, Violation};
use proptest::prelude::*;
use serde::{Deserialize, Serialize};
use std::time::Duration;

#[derive(Clone, Debug, Serialize, Deserialize)]
pub struct BackoffCase {
  pub ivl_ms: u32,
  /// 0 = no maximum; otherwise ivl * factor_percent / 100 (>= ivl)
  pub max_factor_percent: u32,
  pub attempts: u16,
  /// after how many failures a success happens (0 = never)
  pub success_after: u16,
}

fn prop_backoff(c: &BackoffCase, rec: &mut CaseRec) -> Result<(), Violation> {
  let ivl = Duration::from_millis(c.ivl_ms as u64);
  let max = if c.max_factor_percent == 0 { Duration::ZERO } else { Duration::from_millis(c.ivl_ms as u64 * c.max_factor_percent as u64 / 100) };
  let mut st = rzmq::verif::Reconnect::new();
  let mut prev: Option<Duration> = None;
  let mut capped = false;
  for n in 0..c.attempts {
    if c.success_after > 0 && n == c.success_after {
      st.on_connection_success();
      prev = None;
      if st.attempts() != 0 || st.next_attempt_at().is_some() {
        return Err(Violation::new("backoff_not_reset", "state not reset by a successful connection".to_string()));
      }
    }
    let before = std::time::Instant::now();
    let d = st.on_connection_failure(ivl, max);
    match prev {
      None => {
        if d != ivl.min(if max > Duration::ZERO { max } else { ivl }) {
          return Err(Violation::new("backoff_first_delay", format!("first delay {:?}, RECONNECT_IVL {:?} (max {:?})", d, ivl, max)).with("layer", "arithmetic"));
        }
      }
      Some(p) => {
        if d < p {
          return Err(Violation::new("backoff_decreases", format!("attempt {}: delay {:?} after {:?}", n, d, p)).with("layer", "arithmetic"));
        }
        if d > p.saturating_mul(2) {
          return Err(Violation::new("backoff_faster_than_geometric", format!("attempt {}: delay {:?} after {:?}", n, d, p)).with("layer", "arithmetic"));
        }
      }
    }
    if max > Duration::ZERO && d > max {
      return Err(Violation::new("backoff_exceeds_max", format!("attempt {}: delay {:?} > RECONNECT_IVL_MAX {:?}", n, d, max)).with("layer", "arithmetic"));
    }
    if max > Duration::ZERO && d == max {
      capped = true;
    }
    // the scheduled instant must be consistent with the returned delay
    match st.next_attempt_at() {
      Some(t) => {
        if t < before + d {
          return Err(Violation::new("backoff_schedule", format!("next attempt scheduled before now + {:?}", d)).with("layer", "arithmetic"));
        }
      }
      None => return Err(Violation::new("backoff_schedule", "no retry scheduled after a failure".to_string()).with("layer", "arithmetic")),
    }
    prev = Some(d);
  }
  rec.nontrivial = c.attempts > 3;
  rec.label_if(capped, "reached_max");
  rec.label_if(max == Duration::ZERO, "no_max");
  rec.label_if(c.attempts > 40, "beyond_2^31");
  Ok(())
}

pub fn run(run: &mut Run) {
  run.level = "fault_enumeration";
  run.rule = "L1: (RECONNECT_IVL 1..10000 ms, RECONNECT_IVL_MAX in {0} or [ivl, 100*ivl], 1..200 consecutive failures, optional success in between) checked against: d0 = ivl, d(n+1) in [d(n), 2*d(n)], d(n) <= max when max > 0, reset after success, retry scheduled no earlier than now + d. L2: a socket with one healthy peer and faulty peers running generated fault sequences (garbage in each phase, wrong credentials, wrong mechanism, incompatible socket type over tcp/ipc/inproc, RST, half-close, connect bursts, listener gone and back), see c17_l2. Non-trivial = more than 3 consecutive failures (L2: the fault reached its phase while the healthy connection was up). Distinct = hash of the case".into();
  run.assumptions = vec!["RECONNECT_IVL_MAX is 0 or >= RECONNECT_IVL (documented precondition)".into()];
  let n = match run.tier {
    Tier::Quick => 20_000,
    Tier::Thorough => 400_000,
  };
  let strat = (1u32..10_000, prop_oneof![1 => Just(0u32), 3 => 100u32..10_000], 1u16..200, prop_oneof![2 => Just(0u16), 1 => 1u16..60])
    .prop_map(|(ivl_ms, max_factor_percent, attempts, success_after)| BackoffCase { ivl_ms, max_factor_percent, attempts, success_after });
  run.prop("backoff_arithmetic", n, 16, 500, strat, prop_backoff);
  crate::props::c17_l2::run(run);
}
