//! C01 — while connected, every accepted message arrives exactly once, in order, intact.
//!
//! L2 workloads over real sockets. Every frame is an accounting payload (sender, message
//! sequence, frame index/count, length, seeded fill, crc32), so the receiver decides loss,
//! duplication, reordering, truncation and corruption without a side channel. A sentinel closes
//! each stream: per-connection FIFO means everything accepted before it must already have been
//! handed over when it arrives (a missing sentinel is a hang = inconclusive, never a violation).

use crate::engine::{CaseRec, Run, Tier, Violation};
use crate::stack::{self, acc_message, l2_result, parse_acc, run_l2, Rt, Transport, L2, SENTINEL_SEQ};
use proptest::prelude::*;
use rzmq::socket::options as opt;
use rzmq::socket::SocketEvent;
use rzmq::{Msg, MsgFlags};
use serde::{Deserialize, Serialize};
use std::time::Duration;

#[derive(Clone, Copy, Debug, Serialize, Deserialize, PartialEq, Eq)]
pub enum Pair {
  PushPull,
  DealerRouter,
  RouterDealer,
  DealerDealer,
  ReqRep,
}

#[derive(Clone, Copy, Debug, Serialize, Deserialize, PartialEq, Eq)]
pub enum FirstSend {
  /// straight after connect() returns
  Immediately,
  AfterHandshake,
}

#[derive(Clone, Debug, Serialize, Deserialize)]
pub enum Motif {
  Tiny { count: u8, size: u8 },
  /// one message of fraction/100 of the physical batch ceiling
  Fill { percent: u8 },
  /// sizes P-w .. P-w+3 for wire overhead w
  Edge { w: u8 },
  Over { times_ten: u8 },
  Multipart { sizes: Vec<u16> },
  /// tiny, fill 99%, tiny, P-tiny-eps, tiny x12 : the shape that lets a later message pass an
  /// earlier one when the carry-over is topped up from the pipe
  Overtake,
  Huge { kib: u16 },
}

#[derive(Clone, Debug, Serialize, Deserialize)]
pub struct Case {
  pub pair: Pair,
  pub transport: Transport,
  pub rt: Rt,
  pub sndhwm: u16,
  pub rcvhwm: u16,
  pub sndbatch_count: u8,
  pub sndbatch_bytes: u32,
  pub rcvbatch_count: u8,
  pub throttle: bool,
  pub cork: bool,
  pub first_send: FirstSend,
  /// receiver: sleep `stall_ms` every `stall_every` messages (0 = drain freely)
  pub stall_every: u8,
  pub stall_ms: u8,
  pub motifs: Vec<Motif>,
  /// 0 = NULL, 1 = CURVE, 2 = PLAIN (tcp / ipc only; inproc has no handshake)
  #[serde(default)]
  pub mech: u8,
}

fn motif_strategy(huge: bool) -> impl Strategy<Value = Motif> {
  let base = prop_oneof![
    4 => (1u8..60, 1u8..64).prop_map(|(count, size)| Motif::Tiny { count, size }),
    3 => prop::sample::select(vec![45u8, 90, 99]).prop_map(|percent| Motif::Fill { percent }),
    2 => prop::sample::select(vec![2u8, 9, 11, 18]).prop_map(|w| Motif::Edge { w }),
    2 => (10u8..40).prop_map(|times_ten| Motif::Over { times_ten }),
    2 => prop::collection::vec(prop_oneof![Just(0u16), Just(1), Just(255), Just(256), 0u16..3000], 2..6).prop_map(|sizes| Motif::Multipart { sizes }),
    3 => Just(Motif::Overtake),
  ];
  if huge {
    prop_oneof![12 => base, 1 => (256u16..1024).prop_map(|kib| Motif::Huge { kib })].boxed()
  } else {
    base.boxed()
  }
}

fn case_strategy(huge: bool) -> impl Strategy<Value = Case> {
  (
    prop::sample::select(vec![Pair::PushPull, Pair::PushPull, Pair::DealerRouter, Pair::RouterDealer, Pair::DealerDealer, Pair::ReqRep]),
    prop::sample::select(vec![Transport::Tcp, Transport::Ipc, Transport::Inproc]),
    prop::sample::select(vec![Rt::Current, Rt::Multi(2), Rt::Multi(4)]),
    (prop::sample::select(vec![1u16, 2, 3, 8, 64, 256]), prop::sample::select(vec![1u16, 2, 3, 8, 64, 256])),
    (prop::sample::select(vec![1u8, 2, 8, 128]), prop::sample::select(vec![1u32, 512, 4096, 65536, 262144]), prop::sample::select(vec![1u8, 8, 128])),
    (any::<bool>(), any::<bool>()),
    prop::sample::select(vec![FirstSend::Immediately, FirstSend::AfterHandshake]),
    (prop::sample::select(vec![0u8, 0, 3, 7, 40]), prop::sample::select(vec![1u8, 5, 30])),
    (prop::collection::vec(motif_strategy(huge), 3..14), prop::sample::select(vec![0u8, 0, 0, 0, 1, 1, 2])),
  )
    .prop_map(|(pair, transport, rt, (sndhwm, rcvhwm), (sndbatch_count, sndbatch_bytes, rcvbatch_count), (throttle, cork), first_send, (stall_every, stall_ms), (motifs, mech))| Case {
      pair,
      // DEALER-DEALER is refused over inproc (C05 known finding): not a connected pair there
      transport: if pair == Pair::DealerDealer && transport == Transport::Inproc { Transport::Ipc } else { transport },
      rt,
      sndhwm,
      rcvhwm,
      sndbatch_count,
      sndbatch_bytes,
      rcvbatch_count,
      throttle,
      cork,
      first_send,
      stall_every,
      stall_ms,
      motifs,
      mech: if transport == Transport::Inproc && pair != Pair::DealerDealer { 0 } else { mech },
    })
}

/// Expands the motifs into message shapes (frame sizes), aimed at the batch ceilings.
pub fn expand(c: &Case) -> Vec<Vec<usize>> {
  let b = c.sndbatch_bytes as usize;
  let p = rzmq::socket::options::calculate_required_slot_size(b, c.sndbatch_count as usize);
  let mut out: Vec<Vec<usize>> = Vec::new();
  for m in &c.motifs {
    match m {
      Motif::Tiny { count, size } => {
        for _ in 0..*count {
          out.push(vec![*size as usize]);
        }
      }
      Motif::Fill { percent } => out.push(vec![p * *percent as usize / 100]),
      Motif::Edge { w } => {
        for d in 0..4usize {
          out.push(vec![p.saturating_sub(*w as usize) + d]);
        }
      }
      Motif::Over { times_ten } => out.push(vec![(p * *times_ten as usize / 10).min(600_000) + 1]),
      Motif::Multipart { sizes } => out.push(sizes.iter().map(|s| *s as usize).collect()),
      Motif::Overtake => {
        out.push(vec![10]);
        out.push(vec![p * 99 / 100]);
        out.push(vec![60]);
        out.push(vec![p.saturating_sub(100)]);
        for _ in 0..12 {
          out.push(vec![10]);
        }
      }
      Motif::Huge { kib } => out.push(vec![*kib as usize * 1024]),
    }
  }
  // ReqRep is lock-step and single-frame requests only (documented)
  if c.pair == Pair::ReqRep {
    out.truncate(60);
    for m in out.iter_mut() {
      m.truncate(1);
    }
  }
  out
}

fn types(p: Pair) -> (&'static str, &'static str) {
  match p {
    Pair::PushPull => ("PUSH", "PULL"),
    Pair::DealerRouter => ("DEALER", "ROUTER"),
    Pair::RouterDealer => ("ROUTER", "DEALER"),
    Pair::DealerDealer => ("DEALER", "DEALER"),
    Pair::ReqRep => ("REQ", "REP"),
  }
}

fn with_identity(pair: Pair, mut frames: Vec<Msg>) -> Vec<Msg> {
  if pair == Pair::RouterDealer {
    let mut id = Msg::from_static(b"peer");
    id.set_flags(MsgFlags::MORE);
    frames.insert(0, id);
  }
  frames
}

/// Strips what the receiving socket type adds (ROUTER: identity frame).
fn payload_frames(pair: Pair, frames: Vec<Msg>) -> Vec<Vec<u8>> {
  let skip = if pair == Pair::DealerRouter { 1 } else { 0 };
  frames.iter().skip(skip).map(|m| m.data().unwrap_or(&[]).to_vec()).collect()
}

fn decode(frames: &[Vec<u8>]) -> Result<(u32, usize), String> {
  if frames.is_empty() {
    return Err("empty message".into());
  }
  let mut seq = None;
  for (i, f) in frames.iter().enumerate() {
    let a = parse_acc(f)?;
    if a.frame_idx as usize != i || a.frame_cnt as usize != frames.len() {
      return Err(format!("frame {} of {} carries index {}/{}", i, frames.len(), a.frame_idx, a.frame_cnt));
    }
    match seq {
      None => seq = Some(a.msg_seq),
      Some(s) if s != a.msg_seq => return Err(format!("frames of messages {} and {} glued together", s, a.msg_seq)),
      _ => {}
    }
  }
  Ok((seq.unwrap(), frames.len()))
}

async fn body(c: &Case) -> L2 {
  let ctx = match rzmq::Context::new() {
    Ok(x) => x,
    Err(e) => return L2::Inconclusive(e.to_string()),
  };
  let (stype, rtype) = types(c.pair);
  let shapes = expand(c);
  let mut ropts = vec![
    stack::i32opt(opt::RCVHWM, c.rcvhwm as i32),
    stack::i32opt(opt::SNDHWM, c.sndhwm as i32),
    stack::i32opt(opt::RCVBATCH_COUNT, c.rcvbatch_count as i32),
    stack::i32opt(opt::RCVTIMEO, 20_000),
    stack::i32opt(opt::ADAPTIVE_THROTTLE, c.throttle as i32),
    stack::i32opt(opt::TCP_CORK, c.cork as i32),
  ];
  let sopts = vec![
    stack::i32opt(opt::SNDHWM, c.sndhwm as i32),
    stack::i32opt(opt::RCVHWM, c.rcvhwm as i32),
    stack::i32opt(opt::SNDBATCH_COUNT, c.sndbatch_count as i32),
    stack::i32opt(opt::SNDBATCH_BYTES, c.sndbatch_bytes as i32),
    stack::i32opt(opt::SNDTIMEO, 20_000),
    stack::i32opt(opt::RCVTIMEO, 20_000),
    stack::i32opt(opt::ADAPTIVE_THROTTLE, c.throttle as i32),
    stack::i32opt(opt::TCP_CORK, c.cork as i32),
  ];
  let mut sopts = sopts;
  if c.mech != 0 && c.transport != Transport::Inproc {
    use crate::pair::{EndSpec, Mech};
    let m = if c.mech == 1 { Mech::Curve } else { Mech::Plain };
    let mut srv = EndSpec::new(rtype, true, m);
    let mut cli = EndSpec::new(stype, false, m);
    if c.mech == 2 {
      srv.plain = Some(("u".into(), "p".into()));
      cli.plain = Some(("u".into(), "p".into()));
    }
    ropts.extend(srv.options());
    sopts.extend(cli.options());
  }
  if c.pair == Pair::RouterDealer {
    ropts.push((opt::ROUTING_ID, b"peer".to_vec()));
  }
  let (receiver, ep) = match stack::bound(&ctx, rtype, c.transport, &ropts).await {
    Ok(x) => x,
    Err(e) => return L2::Inconclusive(e),
  };
  let sender = match ctx.socket(stack::stype(stype)) {
    Ok(s) => s,
    Err(e) => return L2::Inconclusive(e.to_string()),
  };
  if let Err(e) = stack::set_opts(&sender, &sopts).await {
    return L2::Inconclusive(e);
  }
  if c.pair == Pair::RouterDealer {
    let _ = sender.set_option_raw(opt::ROUTER_MANDATORY, &1i32.to_ne_bytes()).await;
  }
  let mon = sender.monitor_default().await.ok();
  if let Err(e) = sender.connect(&ep).await {
    return L2::Inconclusive(e.to_string());
  }
  // ROUTER cannot address a peer whose identity it has not learnt yet: it always waits
  if c.first_send == FirstSend::AfterHandshake || c.pair == Pair::RouterDealer {
    if c.transport == Transport::Inproc {
      tokio::time::sleep(Duration::from_millis(60)).await;
    } else if let Some(m) = &mon {
      if stack::wait_event(m, Duration::from_secs(5), |e| matches!(e, SocketEvent::HandshakeSucceeded { .. })).await.is_none() {
        return L2::Inconclusive("no HandshakeSucceeded".into());
      }
      tokio::time::sleep(Duration::from_millis(30)).await;
    }
  }
  let v = |check: &str, d: String| {
    L2::Violation(
      Violation::new(check, d)
        .with("layer", "stack")
        .with("transport", c.transport.name())
        .with("sender", stype)
        .with("first_send", if c.first_send == FirstSend::Immediately { "during_connect" } else { "after_handshake" }),
    )
  };

  if c.pair == Pair::ReqRep {
    // lock-step request/reply, both directions checked
    for (i, shape) in shapes.iter().enumerate() {
      let req = acc_message(1, i as u32, shape);
      if let Err(e) = sender.send(req.into_iter().next().unwrap()).await {
        return L2::Inconclusive(format!("REQ send {}: {}", i, e));
      }
      let got = match receiver.recv_multipart().await {
        Ok(f) => f,
        Err(e) => return v("accepted_message_lost", format!("REP never received request {}: {}", i, e)),
      };
      match decode(&payload_frames(c.pair, got)) {
        Ok((seq, _)) if seq == i as u32 => {}
        Ok((seq, _)) => return v("reordered_or_duplicated", format!("REP received request {} while {} was sent", seq, i)),
        Err(e) => return v("corrupted_message", format!("request {}: {}", i, e)),
      }
      let reply = acc_message(2, i as u32, &[shape[0] / 2 + 1]);
      if let Err(e) = receiver.send(reply.into_iter().next().unwrap()).await {
        return L2::Inconclusive(format!("REP send {}: {}", i, e));
      }
      let got = match sender.recv_multipart().await {
        Ok(f) => f,
        Err(e) => return v("accepted_message_lost", format!("REQ never received reply {}: {}", i, e)),
      };
      match decode(&got.iter().map(|m| m.data().unwrap_or(&[]).to_vec()).collect::<Vec<_>>()) {
        Ok((seq, _)) if seq == i as u32 => {}
        Ok((seq, _)) => return v("reordered_or_duplicated", format!("REQ received reply {} to request {}", seq, i)),
        Err(e) => return v("corrupted_message", format!("reply {}: {}", i, e)),
      }
    }
    let _ = sender.close().await;
    let _ = receiver.close().await;
    stack::term(&ctx).await;
    return L2::Ok;
  }

  // receiver task
  let rcv = receiver.clone();
  let pair = c.pair;
  let (stall_every, stall_ms) = (c.stall_every, c.stall_ms);
  let reader = tokio::spawn(async move {
    let mut got: Vec<(u32, usize)> = Vec::new();
    let mut n = 0u32;
    loop {
      match rcv.recv_multipart().await {
        Ok(frames) => {
          let p = payload_frames(pair, frames);
          match decode(&p) {
            Ok((seq, cnt)) => {
              if seq == SENTINEL_SEQ {
                return Ok(got);
              }
              got.push((seq, cnt));
            }
            Err(e) => return Err(format!("after {} messages: {}", got.len(), e)),
          }
          n += 1;
          if stall_every > 0 && n % stall_every as u32 == 0 && n / (stall_every as u32) < 60 {
            tokio::time::sleep(Duration::from_millis(stall_ms as u64)).await;
          }
        }
        Err(e) => return Err(format!("HANG: recv failed after {} messages: {}", got.len(), e)),
      }
    }
  });
  // sender
  let mut accepted: Vec<(u32, usize)> = Vec::new();
  let mut backpressure = false;
  for (i, shape) in shapes.iter().enumerate() {
    let t = std::time::Instant::now();
    match sender.send_multipart(with_identity(c.pair, acc_message(1, i as u32, shape))).await {
      Ok(()) => accepted.push((i as u32, shape.len())),
      Err(_) => {} // refused: simply not expected
    }
    if t.elapsed() > Duration::from_millis(5) {
      backpressure = true;
    }
  }
  let _ = backpressure;
  let mut sentinel_ok = false;
  for _ in 0..200 {
    if sender.send_multipart(with_identity(c.pair, acc_message(1, SENTINEL_SEQ, &[32]))).await.is_ok() {
      sentinel_ok = true;
      break;
    }
    tokio::time::sleep(Duration::from_millis(20)).await;
  }
  if !sentinel_ok {
    return L2::Inconclusive("sentinel could not be sent".into());
  }
  let got = match tokio::time::timeout(Duration::from_secs(60), reader).await {
    Ok(Ok(Ok(g))) => g,
    Ok(Ok(Err(e))) if e.starts_with("HANG") => return L2::Inconclusive(e),
    Ok(Ok(Err(e))) => return v("corrupted_message", e),
    _ => return L2::Inconclusive("reader did not finish".into()),
  };
  let verdict = if got == accepted {
    L2::Ok
  } else {
    // classify
    let got_seqs: Vec<u32> = got.iter().map(|g| g.0).collect();
    let acc_seqs: Vec<u32> = accepted.iter().map(|g| g.0).collect();
    let mut sorted = got_seqs.clone();
    sorted.sort_unstable();
    let dup = sorted.windows(2).any(|w| w[0] == w[1]);
    let missing: Vec<u32> = acc_seqs.iter().filter(|s| !got_seqs.contains(s)).copied().collect();
    let first_diff = got_seqs.iter().zip(acc_seqs.iter()).position(|(a, b)| a != b).unwrap_or(got_seqs.len().min(acc_seqs.len()));
    let check = if dup {
      "duplicated"
    } else if !missing.is_empty() {
      "accepted_message_lost"
    } else if sorted == { let mut a = acc_seqs.clone(); a.sort_unstable(); a } {
      "reordered"
    } else {
      "unexpected_message"
    };
    v(
      check,
      format!(
        "{:?} {} {:?}: {} accepted, {} received before the sentinel; first difference at position {} (received {:?} expected {:?}); missing {:?}; options SNDHWM {} RCVHWM {} SNDBATCH {}x{}B",
        c.pair,
        c.transport.name(),
        c.first_send,
        accepted.len(),
        got.len(),
        first_diff,
        &got_seqs[first_diff.saturating_sub(2)..(first_diff + 4).min(got_seqs.len())],
        &acc_seqs[first_diff.saturating_sub(2)..(first_diff + 4).min(acc_seqs.len())],
        &missing[..missing.len().min(10)],
        c.sndhwm,
        c.rcvhwm,
        c.sndbatch_count,
        c.sndbatch_bytes
      ),
    )
  };
  let _ = sender.close().await;
  let _ = receiver.close().await;
  stack::term(&ctx).await;
  verdict
}

pub fn run(run: &mut Run) {
  run.rule = "workloads = pair in {PUSH->PULL, DEALER->ROUTER, ROUTER(mandatory)->DEALER, DEALER->DEALER, REQ<->REP lock-step} x tcp/ipc/inproc x runtime {current, 2, 4 threads} x SNDHWM/RCVHWM in {1,2,3,8,64,256} x SNDBATCH_COUNT {1,2,8,128} x SNDBATCH_BYTES {1,512,4096,65536,262144} x RCVBATCH_COUNT x throttle x cork x first send {straight after connect(), after HandshakeSucceeded} x receiver pacing x 3..13 size motifs aimed at the logical and physical batch ceilings (tiny runs, 45/90/99% fills, edge sizes P-w..P-w+3, over-ceiling, multipart incl. empty frames, the overtake motif; thorough adds 256 KiB..1 MiB). Non-trivial = the workload contains the overtake motif, an edge or over-ceiling size, first send straight after connect, or a stalling receiver. Distinct = hash of the case".into();
  run.assumptions = vec![
    "options are set before bind/connect; ROUTER only sends after the peer's identity is known; REQ sends single frames".into(),
    "a send() that returns Err is simply not expected at the receiver".into(),
    "the OS schedule is sampled, not owned".into(),
  ];
  let n = match run.tier {
    Tier::Quick => 240,
    Tier::Thorough => 3000,
  };
  let huge = run.tier == Tier::Thorough;
  run.prop_boxed("workloads", n, 12, 12, || case_strategy(huge).boxed(), |c, rec: &mut CaseRec| {
    let nt = c.first_send == FirstSend::Immediately || c.stall_every > 0 || c.motifs.iter().any(|m| matches!(m, Motif::Overtake | Motif::Edge { .. } | Motif::Over { .. }));
    rec.nontrivial = nt;
    rec.label(c.transport.name());
    rec.label(types(c.pair).0);
    rec.label_if(c.first_send == FirstSend::Immediately, "first_send_during_connect");
    rec.label_if(c.motifs.iter().any(|m| matches!(m, Motif::Overtake)), "overtake_motif");
    rec.label_if(c.stall_every > 0, "stalling_receiver");
    rec.label_if(c.mech == 1, "curve");
    rec.label_if(c.mech == 2, "plain");
    let r = run_l2(c.rt, Duration::from_secs(120), body(c));
    let r = match r {
      L2::Inconclusive(w) => L2::Inconclusive(format!("{} :: {}", w, serde_json::to_string(c).unwrap_or_default())),
      o => o,
    };
    l2_result(run, "workloads", r)
  });
  if run.undecided("workloads") * 10 > n as u64 {
    run.inconclusive(format!("{} of {} workloads could not be decided", run.undecided("workloads"), n));
  }
  stack::cleanup_scratch();
}
