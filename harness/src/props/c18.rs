//! C18 — encrypted connections keep data secret, detect tampering, and stay decodable.

use crate::engine::{fill, CaseRec, Run, Tier, Violation};
use crate::pair::{AppEvt, EndSpec, Mech, Mitm, MitmOp, Pair};
use crate::wire::RefFrame;
use proptest::prelude::*;
use serde::{Deserialize, Serialize};

#[derive(Clone, Debug, Serialize, Deserialize)]
pub struct MsgSpec {
  /// frame sizes; every frame embeds a 32-byte marker derived from (case seed, message, frame)
  pub frames: Vec<u32>,
}

#[derive(Clone, Debug, Serialize, Deserialize)]
pub enum Step {
  /// one message through on_app_message
  Send { from_server: bool, msg: MsgSpec },
  /// several messages framed as one batch (frame_batch), as the session does
  Batch { from_server: bool, msgs: Vec<MsgSpec> },
  /// heartbeat tick on one side after `advance_ms` (heartbeats are configured when `hb`)
  Tick { server: bool },
  /// deliver everything in flight
  Drain,
}

#[derive(Clone, Debug, Serialize, Deserialize)]
pub enum Tamper {
  None,
  /// flip a bit of record `rec` (counted from the first data-phase record towards the client)
  FlipInRecord { rec: u8, at: u16, bit: u8 },
  TruncateInRecord { rec: u8, at: u16 },
  DropRecord { rec: u8 },
  DupRecord { rec: u8 },
  SwapRecords { rec: u8 },
  /// replay record `rec` at the end of the stream
  ReplayRecord { rec: u8 },
  InjectRecord { rec: u8, len: u16 },
  /// hand one of the client's own data records back to the client (taken from the same run), if
  /// possible the one whose record number equals the number of records the server has sent
  ReflectRecord { rec: u8 },
}

#[derive(Clone, Debug, Serialize, Deserialize)]
pub struct Case {
  pub mech: Mech,
  pub seed: u16,
  pub hb: bool,
  pub steps: Vec<Step>,
  pub tamper: Tamper,
  pub chunks: Vec<u16>,
  /// every message carries the marker of message 0 (equal plaintexts for equal shapes)
  #[serde(default)]
  pub same_marker: bool,
}

fn size_strategy(big: bool) -> impl Strategy<Value = u32> + Clone {
  if big {
    prop_oneof![
      4 => 32u32..300,
      2 => 300u32..5000,
      2 => prop::sample::select(vec![65_000u32, 65_400, 65_500, 65_519, 65_520, 65_536, 66_000, 70_000, 131_072, 200_000]),
      1 => 5000u32..70_000,
    ]
    .boxed()
  } else {
    prop_oneof![4 => 32u32..300, 1 => 300u32..3000].boxed()
  }
}

fn msg_strategy(big: bool) -> impl Strategy<Value = MsgSpec> + Clone {
  prop::collection::vec(size_strategy(big), 1..4).prop_map(|frames| MsgSpec { frames })
}

fn step_strategy(big: bool) -> impl Strategy<Value = Step> + Clone {
  prop_oneof![
    5 => (prop::bool::weighted(0.7), msg_strategy(big)).prop_map(|(from_server, msg)| Step::Send { from_server, msg }),
    2 => (prop::bool::weighted(0.7), prop::collection::vec(msg_strategy(big), 2..8)).prop_map(|(from_server, msgs)| Step::Batch { from_server, msgs }),
    2 => any::<bool>().prop_map(|server| Step::Tick { server }),
    2 => Just(Step::Drain),
  ]
}

fn tamper_strategy() -> impl Strategy<Value = Tamper> + Clone {
  prop_oneof![
    3 => Just(Tamper::None),
    3 => (0u8..6, any::<u16>(), 0u8..8).prop_map(|(rec, at, bit)| Tamper::FlipInRecord { rec, at, bit }),
    1 => (0u8..6, any::<u16>()).prop_map(|(rec, at)| Tamper::TruncateInRecord { rec, at }),
    1 => (0u8..6).prop_map(|rec| Tamper::DropRecord { rec }),
    1 => (0u8..6).prop_map(|rec| Tamper::DupRecord { rec }),
    1 => (0u8..6).prop_map(|rec| Tamper::SwapRecords { rec }),
    1 => (0u8..6).prop_map(|rec| Tamper::ReplayRecord { rec }),
    1 => (0u8..6, 16u16..200).prop_map(|(rec, len)| Tamper::InjectRecord { rec, len }),
    2 => (0u8..6).prop_map(|rec| Tamper::ReflectRecord { rec }),
  ]
}

/// The strategy is boxed inside (size strategies), so build it per worker through a factory.
#[derive(Clone)]
struct CaseStrat {
  big: bool,
}

fn case_strategy(_big: bool) -> impl Strategy<Value = Case> {
  prop::bool::weighted(0.2).prop_flat_map(case_strategy_sized)
}

fn case_strategy_sized(big: bool) -> impl Strategy<Value = Case> {
  (
    prop::sample::select(vec![Mech::Curve, Mech::Noise]),
    any::<u16>(),
    prop::bool::weighted(0.4),
    prop::collection::vec(step_strategy(big), 1..10),
    tamper_strategy(),
    prop::collection::vec(prop_oneof![1 => Just(u16::MAX), 2 => 1u16..200, 1 => 200u16..9000], 0..10),
  )
    .prop_map(|(mech, seed, hb, steps, tamper, chunks)| Case { mech, seed, hb, steps, tamper, chunks, same_marker: false })
}

pub fn marker(seed: u16, msg: usize, frame: usize) -> Vec<u8> {
  fill(32, 0xFEED_0000_0000 ^ ((seed as u64) << 24) ^ ((msg as u64) << 8) ^ frame as u64)
}

fn build_msg(seed: u16, msg_no: usize, m: &MsgSpec) -> (rzmq::FrameBatch, Vec<RefFrame>) {
  let mut fb = rzmq::FrameBatch::new();
  let mut rf = Vec::new();
  let n = m.frames.len();
  for (i, sz) in m.frames.iter().enumerate() {
    let mut body = marker(seed, msg_no, i);
    body.extend(fill((*sz as usize).saturating_sub(32), (seed as u64) * 31 + msg_no as u64 * 7 + i as u64));
    let f = RefFrame::data(body, i + 1 < n);
    fb.push(crate::props::c03::to_msg(&f));
    rf.push(f);
  }
  (fb, rf)
}

fn specs(c: &Case) -> (EndSpec, EndSpec) {
  let mut s = EndSpec::new("DEALER", true, c.mech);
  let mut cl = EndSpec::new("DEALER", false, c.mech);
  s.key_seed = 7001;
  cl.key_seed = 7002;
  cl.peer_key_seed = Some(7001);
  if c.hb {
    s.heartbeat = Some((1, 1000));
    cl.heartbeat = Some((1, 1000));
  }
  (s, cl)
}

fn contains(hay: &[u8], needle: &[u8]) -> bool {
  hay.windows(needle.len()).any(|w| w == needle)
}

/// Record boundaries (start, total len) of a length-prefixed record stream from `from`.
fn records(stream: &[u8], from: usize) -> Vec<(usize, usize)> {
  let mut v = Vec::new();
  let mut off = from;
  while off + 2 <= stream.len() {
    let n = u16::from_be_bytes([stream[off], stream[off + 1]]) as usize;
    if off + 2 + n > stream.len() {
      break;
    }
    v.push((off, 2 + n));
    off += 2 + n;
  }
  v
}

struct Outcome {
  /// messages each side's application was given, in order
  delivered_to_client: Vec<Vec<RefFrame>>,
  delivered_to_server: Vec<Vec<RefFrame>>,
  /// messages accepted by the sender (no error returned), in order
  accepted_to_client: Vec<Vec<RefFrame>>,
  accepted_to_server: Vec<Vec<RefFrame>>,
  client_error: Option<String>,
  server_error: Option<String>,
  /// unmodified wire streams
  wire_to_client: Vec<u8>,
  wire_to_server: Vec<u8>,
  handshake_len_to_client: usize,
  handshake_len_to_server: usize,
  /// a client record was handed back to the client (ReflectRecord)
  reflected: bool,
  ticks_emitted: usize,
  all_markers: Vec<Vec<u8>>,
  applied: usize,
}

/// Runs the case; `mitm` rewrites the server→client stream (a = client in the Pair).
fn execute(c: &Case, mitm: Option<Mitm>) -> Result<Outcome, Violation> {
  execute_with(c, mitm, None)
}

fn execute_with(c: &Case, mitm: Option<Mitm>, reflect: Option<u8>) -> Result<Outcome, Violation> {
  let (s, cl) = specs(c);
  // a = client (target of the MITM), b = server
  let mut p = Pair::with_mitm(cl.build().map_err(|e| Violation::new("engine_build", e))?, s.build().map_err(|e| Violation::new("engine_build", e))?, mitm);
  p.run(&[]);
  if !p.a.completed() || !p.b.completed() {
    return Err(Violation::new("honest_handshake_failed", format!("{}: client {:?} server {:?}", c.mech.name(), p.a.apps, p.b.apps)).with("mech", c.mech.name()));
  }
  let hs_len = p.orig_to_a.len();
  let hs_len_to_server = p.a.sent.len();
  let mut o = Outcome {
    delivered_to_client: vec![],
    delivered_to_server: vec![],
    accepted_to_client: vec![],
    accepted_to_server: vec![],
    client_error: None,
    server_error: None,
    wire_to_client: vec![],
    wire_to_server: vec![],
    handshake_len_to_client: hs_len,
    handshake_len_to_server: hs_len_to_server,
    reflected: false,
    ticks_emitted: 0,
    all_markers: vec![],
    applied: 0,
  };
  let mut msg_no = 0usize;
  let mut chunk_i = 0usize;
  let mut drain = |p: &mut Pair, chunk_i: &mut usize| {
    let mut guard = 0;
    while p.in_flight() > 0 && guard < 100_000 {
      guard += 1;
      let n = (c.chunks.get(*chunk_i).copied().unwrap_or(u16::MAX) as usize).max(1);
      *chunk_i += 1;
      p.deliver(true, n);
      let nb = p.b.inbox.len();
      p.deliver(false, nb.max(1));
    }
  };
  for st in &c.steps {
    match st {
      Step::Send { from_server, msg } => {
        let (fb, rf) = build_msg(c.seed, if c.same_marker { 0 } else { msg_no }, msg);
        for (i, _) in rf.iter().enumerate() {
          o.all_markers.push(marker(c.seed, msg_no, i));
        }
        msg_no += 1;
        // a = client: from_a = !from_server
        let evts = p.app_send(!*from_server, fb);
        let failed = evts.iter().any(|e| matches!(e, AppEvt::Error(_)));
        if !failed {
          if *from_server {
            o.accepted_to_client.push(rf);
          } else {
            o.accepted_to_server.push(rf);
          }
        }
      }
      Step::Batch { from_server, msgs } => {
        let mut batch = Vec::new();
        let mut rfs = Vec::new();
        for m in msgs {
          let (fb, rf) = build_msg(c.seed, if c.same_marker { 0 } else { msg_no }, m);
          for (i, _) in rf.iter().enumerate() {
            o.all_markers.push(marker(c.seed, msg_no, i));
          }
          msg_no += 1;
          batch.push(fb);
          rfs.push(rf);
        }
        let side = if *from_server { &mut p.b } else { &mut p.a };
        match side.eng.frame_batch(&batch) {
          Ok(bytes) => {
            side.sent.extend_from_slice(&bytes);
            if *from_server {
              o.accepted_to_client.extend(rfs);
              // route through the MITM like any other server→client bytes
              p.inject_to_a(bytes.to_vec());
            } else {
              o.accepted_to_server.extend(rfs);
              if p.b.open {
                p.b.inbox.extend(bytes.iter().copied());
              }
            }
          }
          Err(_) => { /* refused at the sender: nothing accepted */ }
        }
      }
      Step::Tick { server } => {
        std::thread::sleep(std::time::Duration::from_millis(if c.hb { 2 } else { 0 }));
        let out = if *server { p.b.eng.on_tick(std::time::Instant::now()) } else { p.a.eng.on_tick(std::time::Instant::now()) };
        let mut wire = Vec::new();
        let mut evts = Vec::new();
        crate::pair::absorb(out, &mut wire, &mut evts);
        if !wire.is_empty() {
          o.ticks_emitted += 1;
        }
        if *server {
          p.b.sent.extend_from_slice(&wire);
          p.inject_to_a(wire);
        } else {
          p.a.sent.extend_from_slice(&wire);
          if p.b.open {
            p.b.inbox.extend(wire);
          }
        }
      }
      Step::Drain => drain(&mut p, &mut chunk_i),
    }
  }
  p.flush_mitm_tail();
  drain(&mut p, &mut chunk_i);
  if let Some(r) = reflect {
    let mine = records(&p.a.sent, hs_len_to_server);
    let from_server = records(&p.orig_to_a, hs_len).len();
    if !mine.is_empty() && p.a.open {
      // the record whose number the client expects next from the server, if the client has
      // written that many itself; any other of its records otherwise
      let k = if mine.len() > from_server { from_server } else { r as usize % mine.len() };
      let (s0, n0) = mine[k];
      let bytes = p.a.sent[s0..s0 + n0].to_vec();
      p.inject_to_a(bytes);
      o.reflected = true;
      drain(&mut p, &mut chunk_i);
    }
  }
  o.delivered_to_client = p.a.delivered();
  o.delivered_to_server = p.b.delivered();
  o.client_error = p.a.apps.iter().find_map(|e| if let AppEvt::Error(s) = e { Some(s.clone()) } else { None });
  o.server_error = p.b.apps.iter().find_map(|e| if let AppEvt::Error(s) = e { Some(s.clone()) } else { None });
  o.wire_to_client = p.orig_to_a.clone();
  o.wire_to_server = p.a.sent.clone();
  o.applied = p.mitm_to_a.as_ref().map(|m| m.applied).unwrap_or(0);
  Ok(o)
}

fn tamper_ops(t: &Tamper, stream: &[u8], from: usize) -> Vec<MitmOp> {
  let recs = records(stream, from);
  if recs.is_empty() {
    return vec![];
  }
  let pick = |r: u8| recs[r as usize % recs.len()];
  match t {
    Tamper::None | Tamper::ReflectRecord { .. } => vec![],
    Tamper::FlipInRecord { rec, at, bit } => {
      let (s, n) = pick(*rec);
      vec![MitmOp::Flip { pos: s + (*at as usize % n), bit: *bit }]
    }
    Tamper::TruncateInRecord { rec, at } => {
      let (s, n) = pick(*rec);
      vec![MitmOp::Truncate { pos: s + 1 + (*at as usize % (n - 1)) }]
    }
    Tamper::DropRecord { rec } => {
      let (s, n) = pick(*rec);
      vec![MitmOp::Replace { pos: s, del: n, ins: vec![] }]
    }
    Tamper::DupRecord { rec } => {
      let (s, n) = pick(*rec);
      vec![MitmOp::Replace { pos: s, del: 0, ins: stream[s..s + n].to_vec() }]
    }
    Tamper::SwapRecords { rec } => {
      if recs.len() < 2 {
        return vec![];
      }
      let i = *rec as usize % (recs.len() - 1);
      let (s1, n1) = recs[i];
      let (s2, n2) = recs[i + 1];
      let mut ins = stream[s2..s2 + n2].to_vec();
      ins.extend_from_slice(&stream[s1..s1 + n1]);
      vec![MitmOp::Replace { pos: s1, del: n1 + n2, ins }]
    }
    Tamper::ReplayRecord { rec } => {
      let (s, n) = pick(*rec);
      vec![MitmOp::Replace { pos: stream.len(), del: 0, ins: stream[s..s + n].to_vec() }]
    }
    Tamper::InjectRecord { rec, len } => {
      let (s, _) = pick(*rec);
      let mut ins = (*len).to_be_bytes().to_vec();
      ins.extend(fill(*len as usize, 99));
      vec![MitmOp::Replace { pos: s, del: 0, ins }]
    }
  }
}

fn shape(v: &[Vec<RefFrame>]) -> Vec<Vec<usize>> {
  v.iter().map(|m| m.iter().map(|f| f.body.len()).collect()).collect()
}

fn prop_case(c: &Case, rec: &mut CaseRec) -> Result<(), Violation> {
  let mech = c.mech.name();
  // Pass 1: no tampering. Everything accepted must be delivered; nothing in clear on the wire.
  let honest = execute(c, None)?;
  let biggest = c
    .steps
    .iter()
    .map(|s| match s {
      Step::Send { msg, .. } => msg.frames.iter().map(|x| *x as usize + 9).sum::<usize>(),
      Step::Batch { msgs, .. } => msgs.iter().flat_map(|m| m.frames.iter()).map(|x| *x as usize + 9).sum::<usize>(),
      _ => 0,
    })
    .max()
    .unwrap_or(0);
  rec.label(mech);
  rec.label_if(biggest + 16 > 65535, "record_over_64k");
  rec.label_if(c.steps.iter().any(|s| matches!(s, Step::Batch { .. })), "batch");
  rec.label_if(honest.ticks_emitted > 0, "heartbeat_emitted");
  rec.label_if(!matches!(c.tamper, Tamper::None), "tampered");
  rec.nontrivial = biggest > 255 || !matches!(c.tamper, Tamper::None);

  for m in &honest.all_markers {
    if contains(&honest.wire_to_client, m) || contains(&honest.wire_to_server, m) {
      return Err(Violation::new("plaintext_on_wire", format!("{}: an application payload marker appears in clear on the wire", mech)).with("mech", mech));
    }
  }
  let hb_in_play = honest.ticks_emitted > 0;
  for (dir, accepted, delivered, err) in [
    ("to_client", &honest.accepted_to_client, &honest.delivered_to_client, &honest.client_error),
    ("to_server", &honest.accepted_to_server, &honest.delivered_to_server, &honest.server_error),
  ] {
    if delivered != accepted || err.is_some() {
      let over = biggest + 16 > 65535;
      let check = if hb_in_play { "own_heartbeat_undecodable" } else { "own_output_undecodable" };
      return Err(
        Violation::new(
          check,
          format!(
            "{} {} without tampering: sender accepted {:?}, receiver delivered {:?}, receiver error {:?} (heartbeats emitted: {})",
            mech,
            dir,
            shape(accepted),
            shape(delivered),
            err,
            honest.ticks_emitted
          ),
        )
        .with("mech", mech)
        .with("over_64k", over)
        .with("heartbeat", hb_in_play),
      );
    }
  }
  // Pass 2: tamper with the server→client record stream.
  if !matches!(c.tamper, Tamper::None) {
    if hb_in_play {
      // a plain PING inside the ciphertext stream desynchronises the peer's record layer
      // (known finding heartbeat-bypasses-record-layer); tamper verdicts would be about that
      rec.label("tamper_skipped_heartbeat_in_stream");
      return Ok(());
    }
    if let Tamper::ReflectRecord { rec: r } = &c.tamper {
      let t = execute_with(c, None, Some(*r))?;
      if !t.reflected {
        rec.label("tamper_had_no_record_to_hit");
        return Ok(());
      }
      rec.label("own_record_reflected");
      let (sent, got) = (&t.accepted_to_client, &t.delivered_to_client);
      let is_prefix = got.len() <= sent.len() && got.iter().zip(sent.iter()).all(|(a, b)| a == b);
      if !is_prefix {
        return Err(
          Violation::new("tampering_delivered", format!("{} {:?}: one of the client's own records was handed back to it; client delivered {:?}, server sent {:?}", mech, c.tamper, shape(got), shape(sent)))
            .with("mech", mech)
            .with("tamper", "ReflectRecord"),
        );
      }
      if t.client_error.is_none() {
        return Err(
          Violation::new("tampering_undetected", format!("{} {:?}: one of the client's own records was handed back to it and the connection stayed up ({} messages delivered)", mech, c.tamper, got.len()))
            .with("mech", mech)
            .with("tamper", "ReflectRecord"),
        );
      }
      return Ok(());
    }
    let ops = tamper_ops(&c.tamper, &honest.wire_to_client, honest.handshake_len_to_client);
    if ops.is_empty() {
      rec.label("tamper_had_no_record_to_hit");
      return Ok(());
    }
    let t = execute(c, Some(Mitm::new(ops)))?;
    if t.applied == 0 {
      return Ok(());
    }
    // What the client was given must be a prefix of what the server sent, in order, intact.
    let sent = &t.accepted_to_client;
    let got = &t.delivered_to_client;
    let is_prefix = got.len() <= sent.len() && got.iter().zip(sent.iter()).all(|(a, b)| a == b);
    if !is_prefix {
      return Err(
        Violation::new("tampering_delivered", format!("{} {:?}: client delivered {:?}, server sent {:?}", mech, c.tamper, shape(got), shape(sent)))
          .with("mech", mech)
          .with("tamper", format!("{:?}", c.tamper).split(' ').next().unwrap_or("").to_string()),
      );
    }
    if got.len() == sent.len() && t.client_error.is_none() && !sent.is_empty() {
      // Everything arrived and nobody noticed: only acceptable if the tampering did not touch
      // a record that carried data (e.g. a replayed/dup record placed after the last one is
      // still a tampered stream and must be detected).
      return Err(
        Violation::new("tampering_undetected", format!("{} {:?}: stream was modified, all {} messages were delivered and the connection stayed up", mech, c.tamper, got.len()))
          .with("mech", mech)
          .with("tamper", format!("{:?}", c.tamper).split(' ').next().unwrap_or("").to_string()),
      );
    }
  }
  Ok(())
}

/// Two sessions between the same static key pairs, same plaintext: ciphertexts must differ.
#[derive(Clone, Debug, Serialize, Deserialize)]
pub struct TwinCase {
  pub mech: Mech,
  pub seed: u16,
  pub size: u16,
}

fn prop_twin(c: &TwinCase, rec: &mut CaseRec) -> Result<(), Violation> {
  rec.nontrivial = true;
  rec.label(c.mech.name());
  let case = Case {
    mech: c.mech,
    seed: c.seed,
    hb: false,
    steps: vec![Step::Send { from_server: true, msg: MsgSpec { frames: vec![c.size as u32 + 32] } }, Step::Drain],
    tamper: Tamper::None,
    chunks: vec![],
    same_marker: false,
  };
  // the same plaintext as record 1 of either direction of one session
  let both = Case {
    steps: vec![
      Step::Send { from_server: true, msg: MsgSpec { frames: vec![c.size as u32 + 32] } },
      Step::Send { from_server: false, msg: MsgSpec { frames: vec![c.size as u32 + 32] } },
      Step::Drain,
    ],
    same_marker: true,
    ..case.clone()
  };
  let o = execute(&both, None)?;
  let down = &o.wire_to_client[o.handshake_len_to_client..];
  let up = &o.wire_to_server[o.handshake_len_to_server..];
  if down == up && !down.is_empty() {
    return Err(
      Violation::new("ciphertext_repeats_across_directions", format!("{}: the same {}-byte plaintext sent as the first message of either direction of one session produces identical bytes", c.mech.name(), c.size as u32 + 32))
        .with("mech", c.mech.name()),
    );
  }
  let a = execute(&case, None)?;
  let b = execute(&case, None)?;
  let da = &a.wire_to_client[a.handshake_len_to_client..];
  let db = &b.wire_to_client[b.handshake_len_to_client..];
  if da == db && !da.is_empty() {
    return Err(
      Violation::new("ciphertext_repeats_across_sessions", format!("{}: two sessions between the same key pairs encrypt the same {}-byte plaintext to identical bytes", c.mech.name(), c.size as u32 + 32))
        .with("mech", c.mech.name()),
    );
  }
  Ok(())
}

pub fn run(run: &mut Run) {
  run.level = "fault_enumeration";
  run.rule = "cases = CURVE / NOISE_XX engine pairs taken through an honest handshake, then a generated sequence of steps (single messages either direction, 2..7-message batches through frame_batch, heartbeat ticks with HEARTBEAT_IVL=1ms when enabled, drains with generated chunking; frame sizes 32..300, up to 5000, and the 64 KiB neighbourhood {65000..70000,131072,200000}), run once untouched and once with one record-level tamper on the server->client ciphertext stream (bit flip / truncate inside a record, drop / duplicate / swap / replay / inject a record), or with one of the client's own records of the same run handed back to the client. Twin sessions also send the same plaintext as the first message of both directions of one session. Every frame embeds a 32-byte marker. Twin sessions: same keys, same plaintext, twice. Non-trivial = a message or batch larger than 255 bytes or a tamper applied. Distinct = hash of the case".into();
  run.assumptions = vec![
    "sans-IO engine pairs; record boundaries for tampering are read from the untampered run (2-byte length prefix)".into(),
    "the tamperer has no keys; mutations are applied only to the data phase of the server->client direction".into(),
  ];
  let _ = CaseStrat { big: true };
  let (n, n_twin) = match run.tier {
    Tier::Quick => (8000, 300),
    Tier::Thorough => (100_000, 5000),
  };
  run.prop_boxed("records", n, 16, 200, || case_strategy(true).boxed(), prop_case);
  let twin = (prop::sample::select(vec![Mech::Curve, Mech::Noise]), any::<u16>(), 0u16..2000).prop_map(|(mech, seed, size)| TwinCase { mech, seed, size });
  run.prop("twin_sessions", n_twin, 8, 50, twin, prop_twin);
}
