//! C06 — a configured security mechanism cannot be bypassed or downgraded.
//!
//! An engine configured with PLAIN, CURVE or Noise_XX is fed attacker streams drawn from a
//! grammar (DESIGN Appendix E.3). It must never report a completed handshake nor deliver a
//! message, unless the typed item list is one a reference automaton calls legitimate (a PLAIN
//! *client* has no secret to check: any peer answering WELCOME, READY legitimately completes).

use crate::engine::{fill, CaseRec, Run, Tier, Violation};
use crate::pair::{AppEvt, EndSpec, Mech, Pair, Side};
use crate::wire::{self, RefFrame};
use proptest::prelude::*;
use rzmq::socket::options as opt;
use serde::{Deserialize, Serialize};

const GOOD_USER: &str = "alice";
const GOOD_PASS: &str = "correct horse battery staple 9f3a";

#[derive(Clone, Debug, Serialize, Deserialize)]
pub enum Sig {
  Valid,
  BadLast,
  BadFirst,
}

#[derive(Clone, Debug, Serialize, Deserialize)]
pub enum Item {
  Ready { socket_type: String, identity: Option<Vec<u8>>, junk_prop: bool },
  PlainHello {
    user_good: bool,
    pass_kind: u8,
    /// the user name is the empty string (what a client without configured credentials sends)
    #[serde(default)]
    user_empty: bool,
  },
  CurveShapedHello(u16),
  Welcome { junk: u16 },
  Initiate(u16),
  ErrorCmd,
  UnknownCmd(u16),
  Data { more: bool, len: u16, seed: u16 },
  V2Identity(u8),
  Ping(u8),
}

#[derive(Clone, Debug, Serialize, Deserialize)]
pub struct Stream {
  pub sig: Sig,
  pub revision: u8,
  // v2 tail
  pub v2_stype: u8,
  pub v2_identity_len: u8,
  // v3 tail
  pub minor: u8,
  pub mech_name: String,
  pub as_server: u8,
  pub dirty_padding: bool,
  pub items: Vec<Item>,
}

#[derive(Clone, Debug, Serialize, Deserialize)]
pub struct Case {
  pub mech: Mech,
  pub local_server: bool,
  pub allow_zmtp2: Option<bool>,
  pub local_type: String,
  pub stream: Stream,
  pub chunks: Vec<u16>,
  /// PLAIN listener: 0 = user and password configured, 1 = only the user, 2 = only the password,
  /// 3 = neither (nobody can authenticate against a listener without complete credentials)
  #[serde(default)]
  pub plain_cfg: u8,
}

fn item_strategy() -> impl Strategy<Value = Item> + Clone {
  let st = prop::sample::select(vec!["PUSH", "PULL", "DEALER", "ROUTER", "PUB", "SUB", "REQ", "REP"]).prop_map(|s| s.to_string());
  prop_oneof![
    3 => (st, prop::option::of(prop::collection::vec(1u8..=255, 1..8)), prop::bool::weighted(0.2))
      .prop_map(|(socket_type, identity, junk_prop)| Item::Ready { socket_type, identity, junk_prop }),
    3 => (any::<bool>(), 0u8..4, prop::bool::weighted(0.3)).prop_map(|(user_good, pass_kind, user_empty)| Item::PlainHello { user_good, pass_kind, user_empty }),
    1 => any::<u16>().prop_map(Item::CurveShapedHello),
    2 => prop_oneof![3 => Just(0u16), 1 => 1u16..300].prop_map(|junk| Item::Welcome { junk }),
    1 => any::<u16>().prop_map(Item::Initiate),
    1 => Just(Item::ErrorCmd),
    1 => any::<u16>().prop_map(Item::UnknownCmd),
    3 => (any::<bool>(), 0u16..400, any::<u16>()).prop_map(|(more, len, seed)| Item::Data { more, len, seed }),
    1 => any::<u8>().prop_map(Item::V2Identity),
    1 => (0u8..20).prop_map(Item::Ping),
  ]
}

fn stream_strategy() -> impl Strategy<Value = Stream> + Clone {
  (
    prop_oneof![18 => Just(Sig::Valid), 1 => Just(Sig::BadLast), 1 => Just(Sig::BadFirst)],
    prop_oneof![1 => Just(0u8), 6 => Just(1u8), 1 => Just(2u8), 10 => Just(3u8), 1 => Just(4u8), 1 => Just(0xFFu8)],
    0u8..13,
    prop_oneof![2 => Just(0u8), 1 => 1u8..=255],
    prop_oneof![4 => Just(0u8), 1 => Just(1u8), 1 => any::<u8>()],
    prop::sample::select(vec!["NULL", "PLAIN", "CURVE", "NOISE_XX", "GSSAPI", "PLAIN\u{1}", "", "NULLX"]).prop_map(|s| s.to_string()),
    prop_oneof![4 => Just(0u8), 4 => Just(1u8), 1 => Just(2u8)],
    prop::bool::weighted(0.05),
    prop::collection::vec(item_strategy(), 0..=6),
  )
    .prop_map(|(sig, revision, v2_stype, v2_identity_len, minor, mech_name, as_server, dirty_padding, items)| Stream {
      sig,
      revision,
      v2_stype,
      v2_identity_len,
      minor,
      mech_name,
      as_server,
      dirty_padding,
      items,
    })
}

fn case_strategy() -> impl Strategy<Value = Case> + Clone {
  (
    prop::sample::select(vec![Mech::Plain, Mech::Curve, Mech::Noise]),
    any::<bool>(),
    prop_oneof![2 => Just(None), 1 => Just(Some(true)), 1 => Just(Some(false))],
    prop::sample::select(vec!["PULL", "PUSH", "ROUTER", "DEALER", "SUB", "REP"]).prop_map(|s| s.to_string()),
    stream_strategy(),
    prop::collection::vec(prop_oneof![1 => Just(u16::MAX), 2 => 1u16..80], 0..10),
    (prop::bool::weighted(0.45), prop::sample::select(vec![0u8, 0, 0, 1, 2, 3])),
  )
    .prop_map(|(mech, local_server, allow_zmtp2, local_type, mut stream, chunks, (same_mech, plain_cfg))| {
      // bias towards reaching the mechanism's own token parser
      if same_mech {
        stream.mech_name = mech.name().to_string();
        stream.as_server = (!local_server) as u8;
        // a PLAIN listener with an unset credential: lead with the HELLO a client without that
        // credential would send (empty string for the unset half); the generated items follow
        if mech == Mech::Plain && local_server && plain_cfg != 0 && matches!(stream.sig, Sig::Valid) && !stream.dirty_padding {
          stream.revision = 3;
          let hello = Item::PlainHello { user_good: plain_cfg == 1, pass_kind: if plain_cfg == 2 { 0 } else { 1 }, user_empty: plain_cfg != 1 };
          stream.items.insert(0, hello);
          if !matches!(stream.items.get(1), Some(Item::Ready { .. })) {
            stream.items.insert(1, Item::Ready { socket_type: "DEALER".into(), identity: None, junk_prop: false });
          }
        }
      }
      Case { mech, local_server, allow_zmtp2, local_type, stream, chunks, plain_cfg }
    })
}

fn item_frame(it: &Item) -> Vec<u8> {
  let f = match it {
    Item::Ready { socket_type, identity, junk_prop } => {
      let mut props: Vec<(&str, &[u8])> = vec![("Socket-Type", socket_type.as_bytes())];
      if let Some(id) = identity {
        props.push(("Identity", id));
      }
      if *junk_prop {
        props.push(("X-Junk", b"zzz"));
      }
      RefFrame::cmd(wire::command_body("READY", &wire::metadata(&props)))
    }
    Item::PlainHello { user_good, pass_kind, user_empty } => {
      let user: Vec<u8> = if *user_empty {
        vec![]
      } else if *user_good { GOOD_USER.as_bytes().to_vec() } else { b"mallory".to_vec() };
      let pass: Vec<u8> = match pass_kind {
        0 => b"guess".to_vec(),
        1 => vec![],
        2 => vec![b'x'; 255],
        // a prefix of the right password is still the wrong password
        _ => GOOD_PASS.as_bytes()[..GOOD_PASS.len() - 1].to_vec(),
      };
      wire::plain_hello(&user, &pass)
    }
    Item::CurveShapedHello(seed) => {
      // version(2) + padding(72) + client transient key(32) + short nonce(8) + box(80)
      let mut d = vec![1u8, 0];
      d.extend(std::iter::repeat(0u8).take(72));
      d.extend(fill(32 + 8 + 80, *seed as u64));
      RefFrame::cmd(wire::command_body("HELLO", &d))
    }
    Item::Welcome { junk } => RefFrame::cmd(wire::command_body("WELCOME", &fill(*junk as usize, 7))),
    Item::Initiate(seed) => RefFrame::cmd(wire::command_body("INITIATE", &fill(100 + (*seed % 200) as usize, *seed as u64))),
    Item::ErrorCmd => wire::error_cmd("nope"),
    Item::UnknownCmd(seed) => RefFrame::cmd(wire::command_body("FROBNICATE", &fill((*seed % 64) as usize, *seed as u64))),
    Item::Data { more, len, seed } => {
      // attacker marker inside so that a delivery is recognisable
      let mut b = b"ATTACKER-DATA".to_vec();
      b.extend(fill(*len as usize, *seed as u64));
      RefFrame::data(b, *more)
    }
    Item::V2Identity(n) => RefFrame::data(vec![b'i'; *n as usize], false),
    Item::Ping(n) => wire::ping(10, &fill(*n as usize, 3)),
  };
  let mut out = Vec::new();
  wire::encode_frame(&f, &mut out);
  out
}

pub fn stream_bytes(s: &Stream) -> Vec<u8> {
  let mut v = match s.sig {
    Sig::Valid => wire::signature(),
    Sig::BadLast => {
      let mut x = wire::signature();
      x[9] = 0x7E;
      x
    }
    Sig::BadFirst => {
      let mut x = wire::signature();
      x[0] = 0xFE;
      x
    }
  };
  v.push(s.revision);
  if s.revision < 3 {
    v.push(s.v2_stype);
    v.extend(wire::v2_identity_frame(&vec![b'a'; s.v2_identity_len as usize]));
  } else {
    v.push(s.minor);
    let mut mech = [0u8; 20];
    let mb = s.mech_name.as_bytes();
    mech[..mb.len().min(20)].copy_from_slice(&mb[..mb.len().min(20)]);
    v.extend_from_slice(&mech);
    v.push(s.as_server);
    let mut pad = [0u8; 31];
    if s.dirty_padding {
      pad[7] = 1;
    }
    v.extend_from_slice(&pad);
  }
  for it in &s.items {
    v.extend(item_frame(it));
  }
  v
}

/// Reference automaton: can this typed stream legitimately complete against (mech, role)?
/// Only a PLAIN client can be satisfied without a secret.
fn legitimately_completes(c: &Case) -> bool {
  if c.mech != Mech::Plain || c.local_server {
    return false;
  }
  let s = &c.stream;
  if !matches!(s.sig, Sig::Valid) || s.revision < 3 || s.mech_name != "PLAIN" || s.dirty_padding || s.as_server > 1 {
    return false;
  }
  // any v3 PLAIN "server" that answers WELCOME and then READY is a legitimate PLAIN server
  matches!(s.items.first(), Some(Item::Welcome { .. })) && matches!(s.items.get(1), Some(Item::Ready { .. }))
}

pub fn local_spec(c: &Case) -> EndSpec {
  let mut spec = EndSpec::new(&c.local_type, c.local_server, c.mech);
  spec.plain = Some((GOOD_USER.into(), GOOD_PASS.into()));
  if c.mech == Mech::Plain && c.local_server {
    match c.plain_cfg {
      1 => spec.drop_opts.push(opt::PLAIN_PASSWORD),
      2 => spec.drop_opts.push(opt::PLAIN_USERNAME),
      3 => spec.drop_opts.extend([opt::PLAIN_USERNAME, opt::PLAIN_PASSWORD]),
      _ => {}
    }
  }
  spec.allow_zmtp2 = c.allow_zmtp2;
  spec.key_seed = 501;
  spec.peer_key_seed = if c.local_server { None } else { Some(777) };
  spec
}

fn prop_case(c: &Case, rec: &mut CaseRec) -> Result<(), Violation> {
  let bytes = stream_bytes(&c.stream);
  let eng = local_spec(c).build().map_err(|e| Violation::new("engine_build", e))?;
  let mut side = Side::new(eng);
  side.start();
  // A panic while parsing peer bytes is C07's subject, not this property's: here it only means
  // the connection died (no completion, no delivery beyond what was recorded before).
  let panicked = std::panic::catch_unwind(std::panic::AssertUnwindSafe(|| {
    let mut off = 0;
    let mut i = 0;
    while off < bytes.len() {
      let n = (c.chunks.get(i).copied().unwrap_or(u16::MAX) as usize).max(1).min(bytes.len() - off);
      i += 1;
      side.feed(&bytes[off..off + n]);
      off += n;
    }
  }))
  .is_err();
  rec.label_if(panicked, "engine_panicked_(see_C07)");
  let past_greeting = matches!(c.stream.sig, Sig::Valid) && (c.stream.revision == 1 || (c.stream.revision == 3 && !c.stream.dirty_padding && c.stream.as_server <= 1));
  rec.nontrivial = past_greeting;
  rec.label(c.mech.name());
  rec.label(if c.local_server { "listener" } else { "connector" });
  rec.label_if(c.stream.revision == 1, "v2_greeting");
  rec.label_if(c.stream.revision >= 3 && c.stream.mech_name == "NULL", "null_mechanism_offered");
  rec.label_if(c.stream.revision >= 3 && c.stream.mech_name == c.mech.name(), "same_mechanism_offered");
  rec.label_if(c.stream.items.iter().any(|i| matches!(i, Item::Data { .. })), "has_data_frames");
  let legit = legitimately_completes(c);
  rec.label_if(legit, "legitimate_plain_server");
  rec.label_if(c.mech == Mech::Plain && c.local_server && c.plain_cfg != 0, "plain_listener_with_incomplete_credentials");
  rec.label_if(
    c.mech == Mech::Plain && c.local_server && c.plain_cfg != 0 && c.stream.items.iter().any(|i| matches!(i, Item::PlainHello { user_empty: true, .. } | Item::PlainHello { pass_kind: 1, .. })),
    "incomplete_listener_offered_an_empty_credential",
  );
  if legit {
    return Ok(());
  }
  let completed = side.completed();
  let delivered = side.delivered();
  if completed || !delivered.is_empty() {
    let what = if c.stream.revision < 3 {
      "v2_downgrade"
    } else if c.stream.mech_name != c.mech.name() {
      "other_mechanism"
    } else {
      "same_mechanism_without_credentials"
    };
    return Err(
      Violation::new(
        "bypass",
        format!(
          "{} {} (ALLOW_ZMTP2={:?}) fed revision {} mech {:?} items {:?}: completed={} delivered={} messages",
          c.mech.name(),
          if c.local_server { "listener" } else { "connector" },
          c.allow_zmtp2,
          c.stream.revision,
          c.stream.mech_name,
          c.stream.items.iter().map(|i| format!("{:?}", i).split([' ', '(', '{']).next().unwrap().to_string()).collect::<Vec<_>>(),
          completed,
          delivered.len()
        ),
      )
      .with("how", what)
      .with("mech", c.mech.name())
      .with("role", if c.local_server { "listener" } else { "connector" })
      .with("layer", "engine"),
    );
  }
  Ok(())
}

/// Positive controls: honest peers with the right credentials must get through, so the
/// oracle is known to be able to see a completed handshake and a delivery.
#[derive(Clone, Debug, Serialize, Deserialize)]
pub struct Control {
  pub mech: Mech,
  pub allow_zmtp2: Option<bool>,
}

fn prop_control(c: &Control, rec: &mut CaseRec) -> Result<(), Violation> {
  rec.nontrivial = true;
  rec.label(c.mech.name());
  let mut s = EndSpec::new("PULL", true, c.mech);
  let mut cl = EndSpec::new("PUSH", false, c.mech);
  for e in [&mut s, &mut cl] {
    e.plain = Some((GOOD_USER.into(), GOOD_PASS.into()));
    e.allow_zmtp2 = c.allow_zmtp2;
  }
  let mut p = Pair::new(s.build().map_err(|e| Violation::new("engine_build", e))?, cl.build().map_err(|e| Violation::new("engine_build", e))?);
  p.run(&[]);
  let mut b = rzmq::FrameBatch::new();
  b.push(rzmq::Msg::from_static(b"honest"));
  p.app_send(false, b);
  p.run(&[]);
  if !p.a.completed() || !p.b.completed() || p.a.delivered().len() != 1 {
    return Err(
      Violation::new("honest_peer_rejected", format!("{} with correct credentials: server {:?} client {:?}", c.mech.name(), p.a.apps, p.b.apps)).with("mech", c.mech.name()),
    );
  }
  let _ = AppEvt::Error(String::new());
  Ok(())
}

pub fn run(run: &mut Run) {
  run.rule = "cases = local configuration (PLAIN|CURVE|NOISE_XX x listener|connector x ALLOW_ZMTP2 default/1/0 x socket type) x attacker stream from the grammar (signature valid/corrupt, revision {0,1,2,3,4,0xFF}, v2 tail or v3 tail with mechanism {NULL,PLAIN,CURVE,NOISE_XX,GSSAPI,junk}, as-server {0,1,2}, clean/dirty padding, then 0..6 items from READY / PLAIN HELLO with credentials that are never the configured pair / CURVE-shaped HELLO / WELCOME / INITIATE / ERROR / unknown command / data frame / v2 identity frame / PING) x random segmentation; 2% positive controls with the right credentials. Non-trivial = the stream gets past the greeting (valid signature and v2 revision, or a well-formed v3 greeting). Distinct = hash of the case".into();
  run.assumptions = vec![
    "the attacker does not know the configured PLAIN password nor any secret key and performs no real CURVE/Noise cryptography".into(),
    "a PLAIN client gives the server no secret to prove, so a peer answering WELCOME then READY legitimately completes (reference automaton); such streams are excluded and counted under the label legitimate_plain_server".into(),
  ];
  let n = match run.tier {
    Tier::Quick => 30_000,
    Tier::Thorough => 600_000,
  };
  run.prop("attacker_grammar", n, 16, 600, case_strategy(), prop_case);
  let ctl = (prop::sample::select(vec![Mech::Plain, Mech::Curve, Mech::Noise]), prop::option::of(any::<bool>())).prop_map(|(mech, allow_zmtp2)| Control { mech, allow_zmtp2 });
  run.prop("positive_control", n / 50, 8, 10, ctl, prop_control);
  crate::props::c06_l2::run(run);
}
