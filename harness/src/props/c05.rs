//! C05 — handshakes converge, agree, and give one verdict on compatibility.

use crate::engine::{hash_of, CaseRec, Run, Tier, Violation};
use crate::pair::{schedule_strategy, AppEvt, EndSpec, Mech, Pair, Side, Step};
use crate::wire;
use proptest::prelude::*;
use rzmq::protocol::zmtp::engine::ZmtpPhase;
use rzmq::SocketType;
use serde::{Deserialize, Serialize};
use serde_json::json;

#[derive(Clone, Debug, Serialize, Deserialize)]
pub struct Case {
  pub server: EndSpec,
  pub client: EndSpec,
  pub schedule: Vec<Step>,
}

#[derive(Clone, Copy, Debug, Serialize, Deserialize, PartialEq, Eq)]
pub enum Cred {
  Equal,
  Unequal,
  Missing,
}

fn types_strategy() -> impl Strategy<Value = (String, String)> + Clone {
  let compat: Vec<(&str, &str)> = {
    let mut v = Vec::new();
    for a in wire::SOCKET_TYPES {
      for b in wire::SOCKET_TYPES {
        if wire::compatible(a, b) {
          v.push((a, b));
        }
      }
    }
    v
  };
  prop_oneof![
    3 => prop::sample::select(compat).prop_map(|(a, b)| (a.to_string(), b.to_string())),
    1 => (prop::sample::select(wire::SOCKET_TYPES.to_vec()), prop::sample::select(wire::WIRE_TYPES.to_vec()))
      .prop_map(|(a, b)| (a.to_string(), b.to_string())),
  ]
}

fn rid_strategy() -> impl Strategy<Value = Option<Vec<u8>>> + Clone {
  prop_oneof![
    2 => Just(None),
    1 => any::<u8>().prop_map(|b| Some(vec![b.max(1)])),
    1 => any::<u8>().prop_map(|b| Some(vec![b.max(1); 255])),
    1 => prop::collection::vec(1u8..=255, 1..20).prop_map(Some),
  ]
}

pub fn case_strategy() -> impl Strategy<Value = Case> + Clone {
  (
    types_strategy(),
    prop::sample::select(Mech::ALL.to_vec()),
    prop_oneof![5 => Just(None), 1 => prop::sample::select(Mech::ALL.to_vec()).prop_map(Some)],
    prop_oneof![6 => Just(Cred::Equal), 2 => Just(Cred::Unequal), 1 => Just(Cred::Missing)],
    rid_strategy(),
    rid_strategy(),
    prop::option::of(any::<bool>()),
    prop::option::of(any::<bool>()),
    any::<bool>(),
    schedule_strategy(60),
  )
    .prop_map(|((ta, tb), mech, other_mech, cred, rid_s, rid_c, v2s, v2c, swap_types, schedule)| {
      let (ts, tc) = if swap_types { (tb, ta) } else { (ta, tb) };
      let mut server = EndSpec::new(&ts, true, mech);
      let mut client = EndSpec::new(&tc, false, other_mech.unwrap_or(mech));
      server.routing_id = rid_s;
      client.routing_id = rid_c;
      server.allow_zmtp2 = v2s;
      client.allow_zmtp2 = v2c;
      server.key_seed = 11;
      client.key_seed = 22;
      match cred {
        Cred::Equal => {
          server.plain = Some(("user".into(), "secret-pw".into()));
          client.plain = Some(("user".into(), "secret-pw".into()));
          client.peer_key_seed = Some(11);
        }
        Cred::Unequal => {
          server.plain = Some(("user".into(), "secret-pw".into()));
          client.plain = Some(("user".into(), "wrong-pw".into()));
          client.peer_key_seed = Some(33);
        }
        Cred::Missing => {
          server.plain = Some(("user".into(), "secret-pw".into()));
          client.plain = None;
          client.peer_key_seed = None;
        }
      }
      Case { server, client, schedule }
    })
}

/// Independent statement of when two configurations are compatible.
fn expect_ok(c: &Case) -> (bool, &'static str) {
  if c.server.mech != c.client.mech {
    return (false, "mechanism_mismatch");
  }
  match c.server.mech {
    Mech::Null => {}
    Mech::Plain => {
      if c.client.plain.is_none() || c.client.plain != c.server.plain {
        return (false, "credentials");
      }
    }
    Mech::Curve | Mech::Noise => {
      if c.client.peer_key_seed != Some(c.server.key_seed) {
        return (false, "keys");
      }
    }
  }
  if !wire::compatible(&c.server.socket_type, &c.client.socket_type) {
    return (false, "socket_type");
  }
  (true, "compatible")
}

fn rid_view(r: &Option<Vec<u8>>) -> Option<Vec<u8>> {
  match r {
    Some(v) if !v.is_empty() => Some(v.clone()),
    _ => None,
  }
}

fn terminal(s: &Side) -> bool {
  matches!(s.eng.phase, ZmtpPhase::Data | ZmtpPhase::Closed)
}

fn side_state(s: &Side) -> String {
  format!(
    "phase={} open={} eof={} completes={} errors={:?}",
    crate::pair::phase_name(s.eng.phase),
    s.open,
    s.got_eof,
    s.n_complete(),
    s.apps.iter().filter_map(|a| if let AppEvt::Error(e) = a { Some(e.clone()) } else { None }).collect::<Vec<_>>()
  )
}

pub fn prop_case(c: &Case, rec: &mut CaseRec) -> Result<(), Violation> {
  let (ok, why) = expect_ok(c);
  let small_a = c.schedule.iter().any(|(to_a, n)| *to_a && *n < 10);
  let small_b = c.schedule.iter().any(|(to_a, n)| !*to_a && *n < 10);
  let switches = c.schedule.windows(2).filter(|w| w[0].0 != w[1].0).count();
  rec.nontrivial = (small_a && small_b) || switches >= 2;
  rec.label(why);
  rec.label(c.server.mech.name());
  rec.label_if(small_a && small_b, "small_chunks_both_directions");
  rec.label_if(c.server.routing_id.as_ref().map(|r| r.len() == 255).unwrap_or(false), "rid_255");

  let es = c.server.build().map_err(|e| Violation::new("engine_build", e))?;
  let ec = c.client.build().map_err(|e| Violation::new("engine_build", e))?;
  let mut p = Pair::new(es, ec); // a = server, b = client
  p.run(&c.schedule);
  rec.count("engine_steps", p.steps);
  let pair_name = format!("{}-{}", c.server.socket_type, c.client.socket_type);
  let mech = c.server.mech.name();
  let state = format!("server[{}] client[{}]", side_state(&p.a), side_state(&p.b));

  if ok {
    for (name, s, peer) in [("server", &p.a, &c.client), ("client", &p.b, &c.server)] {
      if !s.completed() || s.eng.phase != ZmtpPhase::Data || !s.open {
        let stuck = s.open && !terminal(s);
        return Err(
          Violation::new(if stuck { "handshake_stuck" } else { "compatible_failed" }, format!("{} did not complete: {}", name, state))
            .with("mech", mech)
            .with("side", name)
            .with("pair", pair_name.clone()),
        );
      }
      if s.n_complete() != 1 {
        return Err(Violation::new("complete_count", format!("{} reported {} completions", name, s.n_complete())).with("mech", mech));
      }
      let (id, st) = s
        .apps
        .iter()
        .find_map(|a| if let AppEvt::Complete { identity, socket_type } = a { Some((identity.clone(), socket_type.clone())) } else { None })
        .unwrap();
      if st.as_deref() != Some(peer.socket_type.as_str()) {
        return Err(
          Violation::new("view_socket_type", format!("{} sees peer type {:?}, peer is {}", name, st, peer.socket_type)).with("mech", mech).with("side", name),
        );
      }
      if id != rid_view(&peer.routing_id) {
        return Err(
          Violation::new("view_identity", format!("{} sees identity {:?}, peer configured {:?}", name, id.map(|v| v.len()), peer.routing_id.as_ref().map(|v| v.len())))
            .with("mech", mech)
            .with("side", name),
        );
      }
      if s.eng.buffer_len() != 0 {
        return Err(Violation::new("leftover_bytes", format!("{} holds {} unread bytes after the handshake", name, s.eng.buffer_len())).with("mech", mech));
      }
    }
    if p.a.eng.verif_version() != p.b.eng.verif_version() {
      return Err(Violation::new("view_version", format!("{:?} vs {:?}", p.a.eng.verif_version(), p.b.eng.verif_version())));
    }
    if p.a.eng.verif_local_mechanism_name() != p.b.eng.verif_local_mechanism_name() {
      return Err(Violation::new("view_mechanism", "mechanism names differ after a completed handshake"));
    }
  } else {
    for (name, s) in [("server", &p.a), ("client", &p.b)] {
      if s.completed() {
        return Err(
          Violation::new("incompatible_completed", format!("{} reported a completed handshake although settings are incompatible ({}): {}", name, why, state))
            .with("reason", why)
            .with("mech", mech)
            .with("side", name)
            .with("pair", pair_name.clone())
            .with("transport", "zmtp3"),
        );
      }
    }
    // Both must have ended in failure: errored itself, or was told EOF by the driver.
    let failed = |s: &Side| !s.open || s.got_eof;
    if !failed(&p.a) || !failed(&p.b) {
      return Err(
        Violation::new("incompatible_waits_forever", format!("incompatible ({}) but a side is left waiting: {}", why, state))
          .with("reason", why)
          .with("mech", mech)
          .with("pair", pair_name),
      );
    }
  }
  Ok(())
}

// --- ZMTP/2.0 speaker ------------------------------------------------------------------------------

#[derive(Clone, Debug, Serialize, Deserialize)]
pub struct V2Case {
  pub local_type: String,
  pub local_server: bool,
  pub local_rid: Option<Vec<u8>>,
  pub allow_zmtp2: Option<bool>,
  pub peer_type: String,
  pub peer_identity: Vec<u8>,
  pub staged: bool,
  pub chunks: Vec<u16>,
}

fn v2_case_strategy() -> impl Strategy<Value = V2Case> + Clone {
  (
    types_strategy(),
    any::<bool>(),
    rid_strategy(),
    prop_oneof![3 => Just(None), 1 => Just(Some(true)), 2 => Just(Some(false))],
    prop_oneof![1 => Just(vec![]), 1 => prop::collection::vec(1u8..=255, 1..40), 1 => Just(vec![7u8; 255])],
    any::<bool>(),
    prop::collection::vec(prop_oneof![3 => prop::sample::select(vec![1u16, 2, 9, 10, 11, 12, 13]), 1 => 1u16..300], 0..40),
  )
    .prop_map(|((a, b), local_server, local_rid, allow_zmtp2, peer_identity, staged, chunks)| V2Case {
      local_type: a,
      peer_type: b,
      local_server,
      local_rid,
      allow_zmtp2,
      peer_identity,
      staged,
      chunks,
    })
}

/// Drives one rzmq engine against the harness's ZMTP/2.0 speaker.
/// Returns the side and the bytes rzmq sent.
pub fn run_v2(c: &V2Case) -> Result<Side, Violation> {
  let mut spec = EndSpec::new(&c.local_type, c.local_server, Mech::Null);
  spec.routing_id = c.local_rid.clone();
  spec.allow_zmtp2 = c.allow_zmtp2;
  let eng = spec.build().map_err(|e| Violation::new("engine_build", e))?;
  let mut side = Side::new(eng);
  side.start();
  // Stages: (bytes rzmq must have sent before the speaker emits this, bytes)
  let g = wire::greeting_v2(&c.peer_type);
  let idf = wire::v2_identity_frame(&c.peer_identity);
  let stages: Vec<(usize, Vec<u8>)> = if c.staged {
    vec![(0, g[..10].to_vec()), (10, g[10..].to_vec()), (12, idf)]
  } else {
    let mut all = g.clone();
    all.extend_from_slice(&idf);
    vec![(0, all)]
  };
  let mut next_stage = 0;
  let mut chunk_i = 0;
  loop {
    while next_stage < stages.len() && side.sent.len() >= stages[next_stage].0 {
      side.inbox.extend(stages[next_stage].1.iter().copied());
      next_stage += 1;
    }
    if side.inbox.is_empty() || !side.open {
      break;
    }
    let n = c.chunks.get(chunk_i).copied().unwrap_or(u16::MAX) as usize;
    chunk_i += 1;
    let n = n.max(1).min(side.inbox.len());
    let chunk: Vec<u8> = side.inbox.drain(..n).collect();
    side.feed(&chunk);
  }
  Ok(side)
}

fn prop_v2(c: &V2Case, rec: &mut CaseRec) -> Result<(), Violation> {
  let allowed = c.allow_zmtp2.unwrap_or(true);
  let compat = wire::compatible(&c.local_type, &c.peer_type);
  let want = allowed && compat;
  rec.nontrivial = c.chunks.iter().take(4).any(|n| *n < 12);
  rec.label(if !allowed { "v2_refused" } else if compat { "compatible" } else { "socket_type" });
  rec.label_if(c.staged, "staged_greeting");
  let side = run_v2(c)?;
  let pair = format!("{}-{}", c.local_type, c.peer_type);
  if want {
    if !side.completed() || side.eng.phase != ZmtpPhase::Data {
      let stuck = side.open && !terminal(&side);
      return Err(
        Violation::new(if stuck { "handshake_stuck" } else { "compatible_failed" }, format!("v2 peer {}: {}", pair, side_state(&side)))
          .with("mech", "v2")
          .with("pair", pair),
      );
    }
    if side.n_complete() != 1 {
      return Err(Violation::new("complete_count", format!("{} completions", side.n_complete())).with("mech", "v2"));
    }
    let (id, st) = side
      .apps
      .iter()
      .find_map(|a| if let AppEvt::Complete { identity, socket_type } = a { Some((identity.clone(), socket_type.clone())) } else { None })
      .unwrap();
    if st.as_deref() != Some(c.peer_type.as_str()) {
      return Err(Violation::new("view_socket_type", format!("sees {:?}, v2 peer announced {}", st, c.peer_type)).with("mech", "v2"));
    }
    let want_id = if c.peer_identity.is_empty() { None } else { Some(c.peer_identity.clone()) };
    if id != want_id {
      return Err(Violation::new("view_identity", format!("sees {:?}, v2 peer sent {} bytes", id.map(|v| v.len()), c.peer_identity.len())).with("mech", "v2"));
    }
    // What rzmq put on the wire must be a valid v2 greeting + identity frame for its own config.
    let mut expect = wire::signature();
    expect.push(3);
    expect.push(wire::v2_socket_code(&c.local_type).unwrap());
    expect.extend_from_slice(&wire::v2_identity_frame(c.local_rid.as_deref().unwrap_or(&[])));
    if side.sent != expect {
      return Err(Violation::new("v2_wire_bytes", format!("rzmq sent {:02x?}, a v2 peer expects {:02x?}", &side.sent[..side.sent.len().min(40)], &expect[..expect.len().min(40)])).with("mech", "v2"));
    }
    if rzmq_version(&side) != Some("V2") {
      return Err(Violation::new("view_version", format!("negotiated {:?} with a v2 peer", rzmq_version(&side))));
    }
  } else {
    if side.completed() {
      return Err(
        Violation::new("incompatible_completed", format!("completed with v2 peer {} (allowed={} compatible={})", pair, allowed, compat))
          .with("reason", if !allowed { "v2_refused" } else { "socket_type" })
          .with("mech", "v2")
          .with("pair", pair)
          .with("transport", "zmtp2"),
      );
    }
    if side.open {
      return Err(
        Violation::new("incompatible_waits_forever", format!("v2 peer {} not refused, rzmq keeps waiting: {}", pair, side_state(&side)))
          .with("reason", if !allowed { "v2_refused" } else { "socket_type" })
          .with("mech", "v2"),
      );
    }
  }
  Ok(())
}

fn rzmq_version(s: &Side) -> Option<&'static str> {
  s.eng.verif_version().map(|v| match v {
    rzmq::protocol::zmtp::engine::ZmtpVersion::V2 => "V2",
    rzmq::protocol::zmtp::engine::ZmtpVersion::V3 => "V3",
  })
}

// --- Verdict matrix ---------------------------------------------------------------------------------

fn socket_type_enum(name: &str) -> Option<SocketType> {
  Some(match name {
    "PUB" => SocketType::Pub,
    "SUB" => SocketType::Sub,
    "REQ" => SocketType::Req,
    "REP" => SocketType::Rep,
    "DEALER" => SocketType::Dealer,
    "ROUTER" => SocketType::Router,
    "PUSH" => SocketType::Push,
    "PULL" => SocketType::Pull,
    _ => return None,
  })
}

fn verdict_v3(local: &str, peer: &str, local_server: bool, drip: bool) -> bool {
  let l = EndSpec::new(local, local_server, Mech::Null);
  let p = EndSpec::new(peer, !local_server, Mech::Null);
  let (s, c) = if local_server { (l, p) } else { (p, l) };
  let mut pair = Pair::new(s.build().unwrap(), c.build().unwrap());
  let sched: Vec<Step> = if drip { (0..400).map(|i| (i % 2 == 0, 1u16)).collect() } else { vec![] };
  pair.run(&sched);
  pair.a.completed() && pair.b.completed()
}

fn verdict_v2(local: &str, peer: &str, local_server: bool, staged: bool) -> bool {
  let c = V2Case {
    local_type: local.into(),
    local_server,
    local_rid: None,
    allow_zmtp2: None,
    peer_type: peer.into(),
    peer_identity: vec![],
    staged,
    chunks: vec![],
  };
  run_v2(&c).map(|s| s.completed()).unwrap_or(false)
}

fn matrix(run: &Run) {
  let sub = "verdict_matrix";
  let replay = run.replay_case(sub);
  if run.is_replay() && replay.is_none() {
    return;
  }
  let mut evals = 0u64;
  for a in wire::SOCKET_TYPES {
    for b in wire::WIRE_TYPES {
      if let Some(r) = &replay {
        if r["a"].as_str() != Some(a) || r["b"].as_str() != Some(b) {
          continue;
        }
      }
      let want = wire::compatible(a, b);
      let mut verdicts: Vec<(&str, bool)> = Vec::new();
      verdicts.push(("zmtp3/local=server", verdict_v3(a, b, true, false)));
      verdicts.push(("zmtp3/local=client", verdict_v3(a, b, false, false)));
      verdicts.push(("zmtp3/local=server/drip", verdict_v3(a, b, true, true)));
      verdicts.push(("zmtp2/local=server", verdict_v2(a, b, true, false)));
      verdicts.push(("zmtp2/local=client", verdict_v2(a, b, false, true)));
      if let (Some(ea), Some(eb)) = (socket_type_enum(a), socket_type_enum(b)) {
        verdicts.push(("inproc/local=connector", rzmq::verif::inproc_compatible(ea, eb)));
        verdicts.push(("inproc/local=binder", rzmq::verif::inproc_compatible(eb, ea)));
      }
      for (how, got) in verdicts {
        evals += 1;
        let mut rec = CaseRec::default();
        rec.nontrivial = true;
        rec.label(if want { "compatible" } else { "incompatible" });
        let case = json!({"a": a, "b": b, "how": how});
        run.record_case(sub, || case.clone(), &rec, hash_of(&(a, b, how)));
        if got != want {
          let transport = how.split('/').next().unwrap();
          // unordered pair name so that both orientations match one entry
          let (x, y) = if a <= b { (a, b) } else { (b, a) };
          let v = Violation::new("verdict", format!("{} gives {} for local {} / peer {}; the ZeroMQ pairing table says {}", how, got, a, b, want))
            .with("transport", transport)
            .with("pair", format!("{}-{}", x, y))
            .with("got", got);
          run.report(sub, v, case);
        }
      }
    }
  }
  if replay.is_none() {
    run.add_subspace("8 local socket types x 11 wire type names x {zmtp3 both roles + drip, zmtp2 both roles, inproc both roles}", evals, true);
  }
}

pub fn run(run: &mut Run) {
  run.rule = "cases = (server cfg, client cfg, delivery schedule): socket types (75% a valid pairing, else any of 8 x 11 wire names), mechanism NULL/PLAIN/CURVE/NOISE_XX (1 in 6 mismatched), credentials/keys equal|unequal|missing, routing ids none/1/255/random bytes, ALLOW_ZMTP2, schedule of (direction, n) steps with n biased to {1,2,9,10,11,12,53,54,63,64,65,all}; plus rzmq engine vs the harness's ZMTP/2.0 speaker (one-shot or staged greeting, chunked); plus the exhaustive verdict matrix. Non-trivial = schedule delivers chunks < 10 bytes in both directions or switches direction at least twice (v2: one of the first four chunks is < 12 bytes; matrix: every cell). Distinct = hash of the case".into();
  run.assumptions = vec![
    "engine level (sans-IO): the driver models the link, EOF is delivered by the driver when the other side failed".into(),
    "pairing table from RFC 28-31 / libzmq session_base as coded in harness/src/wire.rs".into(),
    "a PLAIN server whose expected credentials differ from (or a client that lacks) the presented ones is an incompatible configuration".into(),
  ];
  matrix(run);
  let n = match run.tier {
    Tier::Quick => 4000,
    Tier::Thorough => 150_000,
  };
  run.prop("pair_schedule", n, 16, 400, case_strategy(), prop_case);
  run.prop("v2_speaker", n / 2, 16, 400, v2_case_strategy(), prop_v2);
}
