//! C16 — close() and term() always finish and leave nothing running or hanging.
//!
//! L2: generated programs put a context into a state with operations in flight (connect retries
//! against a dead port, a peer stalling in the handshake, a send blocked at HWM, a recv blocked on
//! an empty queue, traffic flowing) and then terminate it in a generated way after a generated
//! delay. L1 schedule: WaitGroup::wait vs. the last done(), every interleaving of the
//! check-then-wait window.

use crate::engine::{fill, hash_of, panic_log_len, panic_log_since, CaseRec, Run, Tier, Violation};
use crate::sched::{self, Aborted, TaskCtx};
use crate::stack::{self, l2_result, run_l2, Rt, Transport, L2};
use crate::wire;
use proptest::prelude::*;
use rzmq::socket::options as opt;
use serde::{Deserialize, Serialize};
use serde_json::json;
use std::sync::Arc;
use std::time::{Duration, Instant};

#[derive(Clone, Copy, Debug, Serialize, Deserialize, PartialEq, Eq)]
pub enum Ending {
  Term,
  CloseAllThenTerm,
  CloseOneThenTerm,
  DropHandlesThenTerm,
  ConcurrentCloseAndTerm,
}

#[derive(Clone, Debug, Serialize, Deserialize)]
pub struct Case {
  pub transport: Transport,
  pub rt: Rt,
  pub dead_port_connector: bool,
  pub stalled_handshake_peer: bool,
  pub blocked_send: bool,
  pub blocked_recv: bool,
  pub traffic: bool,
  pub monitor: bool,
  pub delay_ms: u8,
  pub ending: Ending,
  pub linger: i32,
  /// HANDSHAKE_IVL of the listening socket (None = the default)
  #[serde(default)]
  pub handshake_ivl: Option<i32>,
  /// how many tasks are parked in recv() / recv_multipart() on clones of one idle socket
  /// (0 = one, for replay files written before the field existed)
  #[serde(default)]
  pub blocked_recv_tasks: u8,
}

fn case_strategy() -> impl Strategy<Value = Case> + Clone {
  (
    prop::sample::select(vec![Transport::Tcp, Transport::Ipc, Transport::Inproc]),
    prop::sample::select(vec![Rt::Current, Rt::Multi(2), Rt::Multi(4)]),
    (any::<bool>(), any::<bool>(), any::<bool>(), any::<bool>(), any::<bool>(), any::<bool>()),
    0u8..50,
    prop::sample::select(vec![Ending::Term, Ending::CloseAllThenTerm, Ending::CloseOneThenTerm, Ending::DropHandlesThenTerm, Ending::ConcurrentCloseAndTerm]),
    prop::sample::select(vec![0i32, 0, 50, 500]),
    (prop::sample::select(vec![None, Some(5000)]), prop::sample::select(vec![1u8, 2, 3, 5, 8])),
  )
    .prop_map(|(transport, rt, (a, b, c, d, e, f), delay_ms, ending, linger, (handshake_ivl, blocked_recv_tasks))| Case {
      transport,
      rt,
      dead_port_connector: a,
      stalled_handshake_peer: b && transport != Transport::Inproc,
      blocked_send: c,
      blocked_recv: d,
      traffic: e,
      monitor: f,
      delay_ms,
      ending,
      linger,
      handshake_ivl,
      blocked_recv_tasks,
    })
}

async fn body(c: &Case) -> L2 {
  let handle = tokio::runtime::Handle::current();
  let tasks_before = handle.metrics().num_alive_tasks();
  let panics_before = panic_log_len();
  let ctx = match rzmq::Context::new() {
    Ok(x) => x,
    Err(e) => return L2::Inconclusive(e.to_string()),
  };
  let common = vec![stack::i32opt(opt::LINGER, c.linger), stack::i32opt(opt::RECONNECT_IVL, 30)];
  let mut popts = common.clone();
  popts.push(stack::i32opt(opt::RCVHWM, 1));
  if let Some(h) = c.handshake_ivl {
    popts.push(stack::i32opt(opt::HANDSHAKE_IVL, h));
  }
  let (pull, ep) = match stack::bound(&ctx, "PULL", c.transport, &popts).await {
    Ok(x) => x,
    Err(e) => return L2::Inconclusive(e),
  };
  let mut sopts = common.clone();
  sopts.push(stack::i32opt(opt::SNDHWM, 1));
  let push = match stack::connected(&ctx, "PUSH", &ep, &sopts).await {
    Ok(s) => s,
    Err(e) => return L2::Inconclusive(e),
  };
  let mut extra_sockets: Vec<rzmq::Socket> = Vec::new();
  let mut mons = Vec::new();
  if c.monitor {
    if let Ok(m) = push.monitor_default().await {
      mons.push(m);
    }
  }
  if c.dead_port_connector {
    // a port nobody listens on: bind + drop a listener to learn a free port
    let dead = match c.transport {
      Transport::Tcp | Transport::Inproc => {
        let l = std::net::TcpListener::bind("127.0.0.1:0").unwrap();
        let p = l.local_addr().unwrap().port();
        drop(l);
        format!("tcp://127.0.0.1:{}", p)
      }
      Transport::Ipc => format!("ipc://{}/nobody-{}.sock", stack::scratch_dir(), stack::uniq()),
    };
    if let Ok(s) = ctx.socket(stack::stype("DEALER")) {
      let _ = stack::set_opts(&s, &common).await;
      let _ = s.connect(&dead).await;
      extra_sockets.push(s);
    }
  }
  let mut raw_peer = None;
  if c.stalled_handshake_peer {
    if let Ok(mut r) = stack::raw_connect(&ep).await {
      let _ = r.write_all(&wire::signature()[..5]).await;
      raw_peer = Some(r);
    }
  }
  // operations in flight
  let mut user_tasks = Vec::new();
  let mut task_names: Vec<&'static str> = Vec::new();
  if c.blocked_recv {
    // a second PULL that never gets anything
    if let Ok((p2, _)) = stack::bound(&ctx, "PULL", Transport::Inproc, &common).await {
      for k in 0..c.blocked_recv_tasks.max(1) {
        let p2c = p2.clone();
        task_names.push("recv blocked on an empty socket");
        user_tasks.push(tokio::spawn(async move {
          let t = Instant::now();
          let ok = if k % 2 == 0 { p2c.recv().await.is_ok() } else { p2c.recv_multipart().await.is_ok() };
          (t.elapsed(), ok, "blocked_recv")
        }));
      }
      extra_sockets.push(p2);
    }
  }
  if c.blocked_send {
    let pushc = push.clone();
    task_names.push("send blocked at HWM");
    user_tasks.push(tokio::spawn(async move {
      let t = Instant::now();
      let mut ok = true;
      // nobody reads from `pull` in this mode: the sender ends up blocked at HWM
      for _ in 0..64 {
        if pushc.send(rzmq::Msg::from_vec(fill(64 * 1024, 1))).await.is_err() {
          ok = false;
          break;
        }
      }
      (t.elapsed(), ok, "blocked_send")
    }));
  } else if c.traffic {
    let pushc = push.clone();
    let pullc = pull.clone();
    task_names.push("send loop (traffic)");
    task_names.push("recv loop (traffic)");
    user_tasks.push(tokio::spawn(async move {
      let t = Instant::now();
      for i in 0..2000u32 {
        if pushc.send(rzmq::Msg::from_vec(i.to_be_bytes().to_vec())).await.is_err() {
          break;
        }
      }
      (t.elapsed(), true, "traffic_send")
    }));
    user_tasks.push(tokio::spawn(async move {
      let t = Instant::now();
      while pullc.recv().await.is_ok() {}
      (t.elapsed(), true, "traffic_recv")
    }));
  }
  tokio::time::sleep(Duration::from_millis(c.delay_ms as u64)).await;

  // --- the ending ---
  let v = |check: &str, d: String| Violation::new(check, d).with("layer", "stack").with("ending", format!("{:?}", c.ending));
  if c.ending == Ending::DropHandlesThenTerm {
    // handles of sockets nobody closed explicitly go away before term()
    extra_sockets.clear();
    mons.clear();
  }
  let t_end = Instant::now();
  let mut closers: Vec<tokio::task::JoinHandle<()>> = Vec::new();
  let ending = async {
    match c.ending {
      Ending::Term => {}
      Ending::CloseAllThenTerm => {
        let _ = push.close().await;
        let _ = pull.close().await;
        for s in &extra_sockets {
          let _ = s.close().await;
        }
      }
      Ending::CloseOneThenTerm => {
        let _ = pull.close().await;
      }
      Ending::DropHandlesThenTerm => {}
      Ending::ConcurrentCloseAndTerm => {
        let p = push.clone();
        let q = pull.clone();
        closers.push(tokio::spawn(async move {
          let _ = p.close().await;
        }));
        closers.push(tokio::spawn(async move {
          let _ = q.close().await;
        }));
      }
    }
    ctx.term().await
  };
  let ended = tokio::time::timeout(Duration::from_secs(15), ending).await;
  let took = t_end.elapsed();
  if ended.is_err() {
    return L2::Violation(v("term_did_not_return", format!("close/term still running after 15 s ({:?})", c)).with("phase", "term"));
  }
  for h in closers {
    if tokio::time::timeout(Duration::from_secs(3), h).await.is_err() {
      return L2::Violation(v("close_hangs", "a close() racing with term() had not returned 3 s after term() completed".to_string()));
    }
  }
  // every in-flight operation must have returned
  for (ti, t) in user_tasks.into_iter().enumerate() {
    let what = task_names.get(ti).copied().unwrap_or("?");
    match tokio::time::timeout(Duration::from_secs(3), t).await {
      Ok(Ok((_el, _ok, _what))) => {}
      Ok(Err(e)) if e.is_panic() => return L2::Violation(v("panic", format!("an application task panicked inside an rzmq call during termination: {}", e)).with("where", crate::engine::last_panic_location())),
      Ok(Err(_)) => {}
      Err(_) => return L2::Violation(v("operation_hangs_after_term", format!("the {} had not returned 3 s after term() completed ({:?})", what, c)).with("op", what.split(' ').next().unwrap_or("").to_string())),
    }
  }
  // operations on closed sockets fail promptly
  for (name, s) in [("push", &push), ("pull", &pull)] {
    let t = Instant::now();
    let r = tokio::time::timeout(Duration::from_secs(1), async {
      if name == "push" {
        s.send(rzmq::Msg::from_static(b"late")).await.is_ok()
      } else {
        s.recv().await.is_ok()
      }
    })
    .await;
    match r {
      Err(_) => return L2::Violation(v("closed_socket_call_hangs", format!("{} after term(): call still pending after 1 s", name))),
      Ok(true) => return L2::Violation(v("closed_socket_call_succeeds", format!("{} after term(): call succeeded (took {:?})", name, t.elapsed()))),
      Ok(false) => {}
    }
  }
  // control-plane calls on a closed socket return promptly too
  for (name, s) in [("push", &push), ("pull", &pull)] {
    let r = tokio::time::timeout(Duration::from_secs(1), async {
      let a = s.set_option_raw(opt::SNDHWM, &5i32.to_ne_bytes()).await.is_ok();
      let b = s.close().await.is_ok();
      (a, b)
    })
    .await;
    match r {
      Err(_) => return L2::Violation(v("closed_socket_call_hangs", format!("{} after term(): set_option/close still pending after 1 s", name))),
      Ok((true, _)) => return L2::Violation(v("closed_socket_call_succeeds", format!("{} after term(): set_option succeeded", name))),
      Ok(_) => {}
    }
  }
  // nothing left running
  let actors_deadline = Instant::now() + Duration::from_secs(2);
  let mut live = ctx.verif_live_actor_count();
  while live > 0 && Instant::now() < actors_deadline {
    tokio::time::sleep(Duration::from_millis(20)).await;
    live = ctx.verif_live_actor_count();
  }
  if live > 0 {
    return L2::Violation(v("actors_left_running", format!("{} actors of the context still registered 2 s after term() returned (term took {:?})", live, took)));
  }
  drop(raw_peer);
  drop(mons);
  drop(extra_sockets);
  let (push_ep, pull_is) = (ep.clone(), c.transport);
  drop(push);
  drop(pull);
  // the endpoint can be bound again from a new context
  if pull_is != Transport::Tcp || true {
    let ctx2 = match rzmq::Context::new() {
      Ok(x) => x,
      Err(e) => return L2::Inconclusive(e.to_string()),
    };
    let s2 = match ctx2.socket(stack::stype("PULL")) {
      Ok(s) => s,
      Err(e) => return L2::Inconclusive(e.to_string()),
    };
    // the inproc registry is per context; tcp port and ipc path are system-wide
    let r = tokio::time::timeout(Duration::from_secs(1), s2.bind(&push_ep)).await;
    let verdict = match r {
      Ok(Ok(())) => None,
      Ok(Err(e)) => Some(v("endpoint_not_released", format!("re-binding {} after term(): {}", push_ep, e))),
      Err(_) => Some(v("endpoint_not_released", format!("re-binding {} after term(): bind still pending after 1 s", push_ep))),
    };
    let _ = s2.close().await;
    let _ = tokio::time::timeout(Duration::from_secs(10), ctx2.term()).await;
    drop(s2);
    drop(ctx2);
    if let Some(vv) = verdict {
      return L2::Violation(vv);
    }
  }
  drop(ctx);
  let tasks_deadline = Instant::now() + Duration::from_secs(3);
  let mut alive = handle.metrics().num_alive_tasks();
  while alive > tasks_before && Instant::now() < tasks_deadline {
    tokio::time::sleep(Duration::from_millis(25)).await;
    alive = handle.metrics().num_alive_tasks();
  }
  if alive > tasks_before {
    return L2::Violation(v("tasks_left_running", format!("{} runtime tasks alive 3 s after both contexts terminated, {} before the case started", alive, tasks_before)));
  }
  let new_panics: Vec<_> = panic_log_since(panics_before).into_iter().filter(|(_, _, loc)| !loc.contains("harness/src")).collect();
  if let Some((_, msg, loc)) = new_panics.first() {
    return L2::Violation(v("panic", format!("{} at {}", msg.chars().take(120).collect::<String>(), loc)).with("where", loc.clone()));
  }
  if took > Duration::from_secs(9) {
    return L2::Violation(v("term_needed_internal_timeout", format!("close/term took {:?}: the implementation's own 10 s fallback fired ({:?})", took, c)));
  }
  L2::Ok
}

// --- WaitGroup::wait vs. the last done() -----------------------------------------------------------------

fn waitgroup_window(run: &Run, bound: usize) {
  let sub = "waitgroup_schedules";
  let exec = |schedule: &[sched::Decision]| -> sched::RunResult {
    let wg = rzmq::verif::Wg::new();
    wg.add(2);
    let w1 = wg.clone();
    let waiter: Box<dyn FnOnce(TaskCtx) -> Result<(), Aborted> + Send> = Box::new(move |ctx: TaskCtx| {
      ctx.block_on(w1.wait())?;
      Ok(())
    });
    let w2 = wg.clone();
    let finisher: Box<dyn FnOnce(TaskCtx) -> Result<(), Aborted> + Send> = Box::new(move |ctx: TaskCtx| {
      ctx.point("actor1:before_done")?;
      w2.done();
      ctx.point("actor2:before_done")?;
      w2.done();
      Ok(())
    });
    sched::run(vec![waiter, finisher], schedule, 500, || Ok(())).0
  };
  if run.is_replay() {
    if let Some(case) = run.replay_case(sub) {
      let schedule: Vec<sched::Decision> = serde_json::from_value(case["schedule"].clone()).unwrap_or_default();
      let res = exec(&schedule);
      if res.deadlock {
        run.report(sub, Violation::new("term_waiter_not_woken", "replay: waiter blocked although the count reached zero".to_string()).with("layer", "waitgroup"), case);
      }
    }
    return;
  }
  let mut stop = false;
  let (runs, complete) = sched::explore(bound, 20_000, |schedule| {
    let res = exec(schedule);
    let mut rec = CaseRec::default();
    rec.nontrivial = res.steps.iter().any(|s| s.label == "waitgroup:checked_nonzero");
    rec.label_if(rec.nontrivial, "waiter_reached_wait");
    let case = json!({"schedule": schedule});
    run.record_case(sub, || case.clone(), &rec, hash_of(&schedule.to_vec()));
    if res.deadlock {
      let trace: Vec<String> = res.steps.iter().map(|s| format!("t{}@{}", s.ran, s.label)).collect();
      let v = Violation::new("term_waiter_not_woken", format!("wait() is still blocked after the last done() (term would hang until its internal timeout): {}", trace.join(" "))).with("layer", "waitgroup");
      if !run.report(sub, v, case) {
        stop = true;
        return Err(());
      }
    }
    Ok(res.steps)
  });
  run.add_subspace(&format!("WaitGroup::wait vs. two done() calls: every schedule with at most {} decisions", bound), runs, complete && !stop);
}

pub fn run(run: &mut Run) {
  run.rule = "L2: programs = one context with a bound PULL and a connected PUSH over tcp/ipc/inproc on current-thread / 2- / 4-thread runtimes, plus any subset of {connector retrying a dead endpoint, raw peer stalled inside the handshake, send blocked at HWM 1, recv blocked on an empty socket, traffic flowing, monitor attached}, LINGER in {0,50,500}, ended after 0..49 ms by term | close all + term | close one + term | drop handles + term | concurrent close + term. Oracles: returns within 15 s (9 s flags the internal fallback), in-flight calls return, calls on closed sockets fail within 1 s, live-actor count 0 within 2 s, endpoint re-bindable within 1 s, runtime task count back to its pre-case value within 3 s, no panic. L1: WaitGroup::wait vs done() schedules. Non-trivial = at least one operation was in flight when the ending started. Distinct = hash of the case".into();
  run.assumptions = vec![
    "bounds are generous (healthy path: milliseconds); a watchdog hit is inconclusive, not a violation".into(),
    "the harness's own spawned tasks are awaited before the runtime task count is compared".into(),
  ];
  let (n, bound) = match run.tier {
    Tier::Quick => (48, 3usize),
    Tier::Thorough => (3000, 4usize),
  };
  waitgroup_window(run, bound);
  run.prop("programs", n, 8, 8, case_strategy(), |c, rec: &mut CaseRec| {
    rec.nontrivial = c.blocked_recv || c.blocked_send || c.traffic || c.dead_port_connector || c.stalled_handshake_peer;
    rec.label(c.transport.name());
    rec.label_if(c.blocked_send, "blocked_send");
    rec.label_if(c.blocked_recv, "blocked_recv");
    rec.label_if(c.blocked_recv && c.blocked_recv_tasks >= 3, "three_or_more_parked_receivers");
    rec.label_if(c.dead_port_connector, "dead_port_connector");
    rec.label_if(c.stalled_handshake_peer, "stalled_handshake_peer");
    rec.label(match c.ending {
      Ending::Term => "term",
      Ending::CloseAllThenTerm => "close_all_term",
      Ending::CloseOneThenTerm => "close_one_term",
      Ending::DropHandlesThenTerm => "drop_term",
      Ending::ConcurrentCloseAndTerm => "concurrent_close_term",
    });
    let r = run_l2(c.rt, Duration::from_secs(60), body(c));
    l2_result(run, "programs", r)
  });
  let _ = Arc::new(0);
  if run.undecided("programs") * 10 > n as u64 {
    run.inconclusive(format!("{} of {} programs could not be decided", run.undecided("programs"), n));
  }
  stack::cleanup_scratch();
}
