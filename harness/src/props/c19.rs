//! C19 — heartbeats detect dead peers and never kill live ones.
//!
//! L1 pure: every PING is answered by exactly one PONG with the same context, in the output of
//! the very input that completed the PING; malformed PING/PONG never panic or produce a PONG;
//! a ZMTP/2.0 engine never emits anything on a tick. Egress model: control frames go out on a
//! frame boundary, ahead of every chunk not yet started. L1 timed: generated timelines of
//! tick / inbound / outbound / sleep events at millisecond scale, judged by the reference rule
//! on the *measured* instants (ambiguous brackets are skipped and counted).
//! L2: c19_l2.

use crate::engine::{fill, CaseRec, Run, Tier, Violation};
use crate::pair::{AppEvt, Side};
use crate::props::c04::{Proto, Transcript};
use crate::wire::{self, RefFrame};
use bytes::Bytes;
use proptest::prelude::*;
use rzmq::protocol::zmtp::engine::ZmtpPhase;
use serde::{Deserialize, Serialize};
use std::collections::VecDeque;
use std::time::{Duration, Instant};

fn data_engine(proto: Proto, heartbeat: Option<(i32, i32)>, server: bool) -> Result<Side, Violation> {
  let t = Transcript { proto, local_server: server, local_type: "DEALER".into(), peer_type: "DEALER".into(), peer_identity: vec![], msgs: vec![] };
  let mut spec = t.local_spec();
  spec.heartbeat = heartbeat;
  let mut side = Side::new(spec.build().map_err(|e| Violation::new("engine_build", e))?);
  side.start();
  let (hs, _) = t.bytes();
  side.feed(&hs);
  if !side.completed() || side.eng.phase != ZmtpPhase::Data {
    return Err(Violation::new("harness_handshake", format!("{:?}", side.apps)));
  }
  side.sent.clear();
  Ok(side)
}

// --- (1) PING -> PONG ------------------------------------------------------------------------------

#[derive(Clone, Debug, Serialize, Deserialize)]
pub enum In {
  Ping { ttl: u16, ctx_len: u8, seed: u8 },
  /// PING command body cut short (fewer than 2 TTL bytes)
  ShortPing(u8),
  Pong { ctx_len: u8 },
  /// command frame with MORE set / PING name in wrong case / unknown command
  Odd(u8),
  Data { len: u16, more: bool },
}

#[derive(Clone, Debug, Serialize, Deserialize)]
pub struct PingCase {
  pub plain: bool,
  pub server: bool,
  pub items: Vec<In>,
  pub chunks: Vec<u16>,
}

fn ping_strategy() -> impl Strategy<Value = PingCase> + Clone {
  let item = prop_oneof![
    5 => (any::<u16>(), prop_oneof![3 => 0u8..=16, 1 => 17u8..40], any::<u8>()).prop_map(|(ttl, ctx_len, seed)| In::Ping { ttl, ctx_len, seed }),
    1 => (0u8..2).prop_map(In::ShortPing),
    1 => (0u8..20).prop_map(|ctx_len| In::Pong { ctx_len }),
    1 => (0u8..3).prop_map(In::Odd),
    3 => (0u16..400, any::<bool>()).prop_map(|(len, more)| In::Data { len, more }),
  ];
  (any::<bool>(), any::<bool>(), prop::collection::vec(item, 1..12), prop::collection::vec(prop_oneof![1 => Just(u16::MAX), 3 => 1u16..40], 0..16))
    .prop_map(|(plain, server, items, chunks)| PingCase { plain, server, items, chunks })
}

fn ping_ctx(len: u8, seed: u8) -> Vec<u8> {
  fill(len as usize, seed as u64 + 1000)
}

fn item_frame(i: &In) -> RefFrame {
  match i {
    In::Ping { ttl, ctx_len, seed } => wire::ping(*ttl, &ping_ctx(*ctx_len, *seed)),
    In::ShortPing(n) => RefFrame::cmd(wire::command_body("PING", &vec![0u8; *n as usize])),
    In::Pong { ctx_len } => wire::pong(&fill(*ctx_len as usize, 4)),
    In::Odd(k) => match k {
      0 => RefFrame { more: true, command: true, body: wire::command_body("PING", &[0, 1, 9, 9]) },
      1 => RefFrame::cmd(wire::command_body("ping", &[0, 1, 9, 9])),
      _ => RefFrame::cmd(wire::command_body("SUBSCRIBE", b"topic")),
    },
    In::Data { len, more } => RefFrame::data(fill(*len as usize, 8), *more),
  }
}

fn prop_ping(c: &PingCase, rec: &mut CaseRec) -> Result<(), Violation> {
  let mut side = data_engine(if c.plain { Proto::V3Plain } else { Proto::V3Null }, None, c.server)?;
  // make the last data frame final so that no partial message lingers
  let mut frames: Vec<RefFrame> = c.items.iter().map(item_frame).collect();
  frames.push(RefFrame::data(b"end".to_vec(), false));
  let stream = wire::encode_frames(&frames);
  // byte offset at which each valid PING completes
  let mut ping_ends: Vec<(usize, Vec<u8>)> = Vec::new();
  let mut off = 0;
  for (it, f) in c.items.iter().zip(frames.iter()) {
    off += wire::frame_wire_len(f.body.len());
    if let In::Ping { ctx_len, seed, .. } = it {
      ping_ends.push((off, ping_ctx(*ctx_len, *seed)));
    }
  }
  rec.nontrivial = !ping_ends.is_empty();
  rec.label_if(c.items.iter().any(|i| matches!(i, In::Ping { ctx_len, .. } if *ctx_len > 16)), "context_over_16");
  rec.label_if(c.items.iter().any(|i| matches!(i, In::ShortPing(_) | In::Odd(_))), "malformed");
  let mut fed = 0;
  let mut i = 0;
  let mut answered = 0usize;
  while fed < stream.len() && side.open {
    let n = (c.chunks.get(i).copied().unwrap_or(u16::MAX) as usize).max(1).min(stream.len() - fed);
    i += 1;
    let out = side.feed(&stream[fed..fed + n]);
    fed += n;
    // PONGs due by now
    let due: Vec<&Vec<u8>> = ping_ends.iter().filter(|(end, _)| *end <= fed).map(|(_, c)| c).collect();
    let (got, used) = wire::decode_all(&out);
    if used != out.len() {
      return Err(Violation::new("pong_malformed", format!("engine output does not parse into whole frames: {:02x?}", &out[..out.len().min(40)])));
    }
    for g in &got {
      let want = due.get(answered);
      match want {
        Some(ctx) if *g == wire::pong(ctx) => answered += 1,
        _ => {
          return Err(Violation::new(
            "pong_wrong",
            format!("after {} bytes the engine emitted frame (command={} body {:02x?}) but the next unanswered PING has context {:02x?}", fed, g.command, &g.body[..g.body.len().min(24)], want),
          ));
        }
      }
    }
    if answered != due.len() {
      return Err(Violation::new("pong_missing", format!("{} PINGs completed within the first {} bytes, {} PONGs emitted so far (a PONG must be in the output of the input that completed its PING)", due.len(), fed, answered)));
    }
  }
  if side.errored() {
    return Err(Violation::new("ping_stream_rejected", format!("a well-formed stream with heartbeat commands closed the connection: {:?}", side.apps.last())));
  }
  Ok(())
}

// --- (2) v2 never heartbeats ---------------------------------------------------------------------

#[derive(Clone, Debug, Serialize, Deserialize)]
pub struct V2Case {
  pub server: bool,
  pub ivl: u16,
  pub timeout: u16,
  pub ticks: Vec<u32>,
}

fn prop_v2(c: &V2Case, rec: &mut CaseRec) -> Result<(), Violation> {
  rec.nontrivial = true;
  let mut side = data_engine(Proto::V2, Some((c.ivl.max(1) as i32, c.timeout.max(1) as i32)), c.server)?;
  let base = Instant::now();
  for t in &c.ticks {
    let out = side.eng.on_tick(base + Duration::from_millis(*t as u64));
    if !out.net_actions.is_empty() || !out.app_actions.is_empty() {
      return Err(Violation::new("v2_heartbeat", format!("a ZMTP/2.0 session produced {:?} / {:?} on a tick at +{} ms", out.net_actions, out.app_actions.len(), t)));
    }
  }
  Ok(())
}

// --- (3) egress buffer model ------------------------------------------------------------------------

#[derive(Clone, Debug, Serialize, Deserialize)]
pub enum EgOp {
  /// chunk of `frames` whole data frames
  Push { frames: Vec<u16> },
  /// control frame (PONG with ctx_len bytes)
  Priority { ctx_len: u8 },
  /// write up to `n` bytes (the writer may write any prefix of the offered slices)
  Advance { n: u16 },
}

fn egress_strategy() -> impl Strategy<Value = Vec<EgOp>> + Clone {
  let op = prop_oneof![
    4 => prop::collection::vec(prop_oneof![3 => 0u16..40, 1 => 250u16..300], 1..4).prop_map(|frames| EgOp::Push { frames }),
    3 => (0u8..17).prop_map(|ctx_len| EgOp::Priority { ctx_len }),
    6 => prop_oneof![3 => 1u16..30, 1 => 1u16..600].prop_map(|n| EgOp::Advance { n }),
  ];
  prop::collection::vec(op, 1..40)
}

fn prop_egress(ops: &Vec<EgOp>, rec: &mut CaseRec) -> Result<(), Violation> {
  let mut eg = rzmq::verif::Egress::new();
  // model: chunks (bytes, msg_count, is_ctrl), write offset into the head
  let mut model: VecDeque<(Vec<u8>, usize)> = VecDeque::new();
  let mut offset = 0usize;
  let mut written: Vec<u8> = Vec::new();
  let mut data_seq = 0u32;
  let mut pushed_data: Vec<Vec<u8>> = Vec::new();
  let mut pushed_ctrl: Vec<Vec<u8>> = Vec::new();
  let mut partial_at_priority = false;
  for op in ops {
    match op {
      EgOp::Push { frames } => {
        let mut chunk = Vec::new();
        for (i, len) in frames.iter().enumerate() {
          let mut body = data_seq.to_be_bytes().to_vec();
          data_seq += 1;
          body.extend(fill(*len as usize, data_seq as u64));
          pushed_data.push(body.clone());
          wire::encode_frame(&RefFrame::data(body, i + 1 < frames.len()), &mut chunk);
        }
        eg.push(Bytes::from(chunk.clone()), 1);
        model.push_back((chunk, 1));
      }
      EgOp::Priority { ctx_len } => {
        let mut f = Vec::new();
        let ctx = fill(*ctx_len as usize, 77 + pushed_ctrl.len() as u64);
        wire::encode_frame(&wire::pong(&ctx), &mut f);
        pushed_ctrl.push(f.clone());
        eg.push_priority(Bytes::from(f.clone()));
        if offset > 0 {
          partial_at_priority = true;
          model.insert(1, (f, 0));
        } else {
          model.push_front((f, 0));
        }
      }
      EgOp::Advance { n } => {
        let pending: usize = model.iter().map(|(c, _)| c.len()).sum::<usize>() - offset;
        let n = (*n as usize).min(pending);
        if n == 0 {
          continue;
        }
        // what the writer is offered must be the model's pending bytes
        let offered: Vec<u8> = eg.slices(64).concat();
        let model_pending: Vec<u8> = model.iter().enumerate().flat_map(|(i, (c, _))| if i == 0 { c[offset..].to_vec() } else { c.clone() }).collect();
        let cmp_len = offered.len().min(model_pending.len());
        if offered[..cmp_len] != model_pending[..cmp_len] || (model.len() <= 64 && offered.len() != model_pending.len()) {
          return Err(Violation::new("egress_order", format!("writer is offered {} bytes that differ from the reference queue ({} bytes) after ops {:?}", offered.len(), model_pending.len(), ops)));
        }
        written.extend_from_slice(&offered[..n]);
        eg.advance(n);
        let mut left = n;
        while left > 0 {
          let head_rem = model[0].0.len() - offset;
          if left >= head_rem {
            left -= head_rem;
            model.pop_front();
            offset = 0;
          } else {
            offset += left;
            left = 0;
          }
        }
      }
    }
    let model_bytes: usize = model.iter().map(|(c, _)| c.len()).sum::<usize>() - offset;
    if eg.total_pending_bytes() != model_bytes || eg.is_empty() != model.is_empty() {
      return Err(Violation::new("egress_accounting", format!("pending bytes {} vs reference {}, is_empty {} vs {}", eg.total_pending_bytes(), model_bytes, eg.is_empty(), model.is_empty())));
    }
  }
  // flush
  loop {
    let offered: Vec<u8> = eg.slices(64).concat();
    if offered.is_empty() {
      break;
    }
    written.extend_from_slice(&offered);
    eg.advance(offered.len());
  }
  rec.nontrivial = partial_at_priority;
  rec.label_if(partial_at_priority, "priority_while_chunk_partially_written");
  // stream-level oracle: whole frames only; data in order; every control frame intact
  let (frames, used) = wire::decode_all(&written);
  if used != written.len() {
    return Err(Violation::new("egress_frame_torn", format!("written stream stops parsing at byte {} of {}", used, written.len())));
  }
  let data: Vec<Vec<u8>> = frames.iter().filter(|f| !f.command).map(|f| f.body.clone()).collect();
  if data != pushed_data {
    return Err(Violation::new("egress_data_order", format!("data frames written {} vs pushed {} (or out of order / corrupted)", data.len(), pushed_data.len())));
  }
  let ctrl = frames.iter().filter(|f| f.command).count();
  if ctrl != pushed_ctrl.len() {
    return Err(Violation::new("egress_ctrl_lost", format!("{} control frames written, {} pushed", ctrl, pushed_ctrl.len())));
  }
  Ok(())
}

// --- (4) timed timelines ------------------------------------------------------------------------------

#[derive(Clone, Debug, Serialize, Deserialize)]
pub enum Ev {
  Tick,
  InData,
  InPong,
  InPing,
  Outbound,
  Sleep(u8),
}

#[derive(Clone, Debug, Serialize, Deserialize)]
pub struct TimedCase {
  pub ivl: u8,
  pub timeout: u8,
  pub evs: Vec<Ev>,
}

fn timed_strategy() -> impl Strategy<Value = TimedCase> + Clone {
  let ev = prop_oneof![
    6 => Just(Ev::Tick),
    2 => Just(Ev::InData),
    2 => Just(Ev::InPong),
    1 => Just(Ev::InPing),
    1 => Just(Ev::Outbound),
    6 => (1u8..25).prop_map(Ev::Sleep),
  ];
  (5u8..40, 5u8..60, prop::collection::vec(ev, 4..40)).prop_map(|(ivl, timeout, evs)| TimedCase { ivl, timeout, evs })
}

fn prop_timed(c: &TimedCase, rec: &mut CaseRec) -> Result<(), Violation> {
  let ivl = Duration::from_millis(c.ivl as u64);
  let timeout = Duration::from_millis(c.timeout as u64);
  let t0 = Instant::now();
  let mut side = data_engine(Proto::V3Null, Some((c.ivl as i32, c.timeout as i32)), true)?;
  let t1 = Instant::now();
  // reference state: last activity lies in [act_lo, act_hi]; waiting since ping_at
  let (mut act_lo, mut act_hi) = (t0, t1);
  let mut waiting: Option<Instant> = None;
  let mut traffic_since_ping = false;
  let mut last_inbound = t0;
  let mut ambiguous = 0u64;
  let mut pings = 0;
  for (k, ev) in c.evs.iter().enumerate() {
    match ev {
      Ev::Sleep(ms) => std::thread::sleep(Duration::from_millis(*ms as u64)),
      Ev::Outbound => {
        let a = Instant::now();
        side.eng.record_activity();
        act_lo = a;
        act_hi = Instant::now();
      }
      Ev::InData | Ev::InPong | Ev::InPing => {
        let f = match ev {
          Ev::InData => RefFrame::data(b"x".to_vec(), false),
          Ev::InPong => wire::pong(&[]),
          _ => wire::ping(100, b"ab"),
        };
        let a = Instant::now();
        side.feed(&wire::encode_frames(&[f]));
        act_lo = a;
        act_hi = Instant::now();
        last_inbound = a;
        if matches!(ev, Ev::InPong) {
          waiting = None;
        } else if waiting.is_some() {
          traffic_since_ping = true;
        }
        if side.errored() {
          return Err(Violation::new("timeline_inbound_rejected", format!("event {} {:?}: {:?}", k, ev, side.apps.last())));
        }
      }
      Ev::Tick => {
        let now = Instant::now();
        let out = side.eng.on_tick(now);
        let mut wire_out = Vec::new();
        let mut evts = Vec::new();
        crate::pair::absorb(out, &mut wire_out, &mut evts);
        let closed = evts.iter().any(|e| matches!(e, AppEvt::Error(_)));
        let (frames, _) = wire::decode_all(&wire_out);
        let pinged = frames.iter().any(|f| f.command && f.body.starts_with(b"\x04PING"));
        if let Some(ping_at) = waiting {
          let must_close = now.duration_since(ping_at) >= timeout;
          if traffic_since_ping {
            // Traffic arrived after the PING. If the latest inbound frame is younger than
            // HEARTBEAT_TIMEOUT the peer is demonstrably alive and must not be closed; beyond
            // that the statement allows either outcome and the reference cannot know what the
            // engine decided internally, so the timeline ends here.
            if closed && now.duration_since(last_inbound) < timeout {
              return Err(
                Violation::new(
                  "live_peer_closed",
                  format!(
                    "ivl {} ms timeout {} ms: a frame arrived {} ms ago (after the PING, no PONG yet); the tick {} ms after the PING closed the connection",
                    c.ivl,
                    c.timeout,
                    now.duration_since(last_inbound).as_millis(),
                    now.duration_since(ping_at).as_millis()
                  ),
                )
                .with("traffic_flowing", true)
                .with("layer", "engine"),
              );
            }
            rec.label("traffic_between_ping_and_pong");
            break;
          }
          if closed != must_close {
            return Err(Violation::new(
              if closed { "closed_before_timeout" } else { "dead_peer_not_detected" },
              format!("ivl {} timeout {}: tick {:?} after the PING, closed={}", c.ivl, c.timeout, now.duration_since(ping_at), closed),
            ));
          }
          if closed {
            rec.label("timeout_fired");
            break;
          }
          if pinged {
            return Err(Violation::new("ping_while_waiting", "a second PING was sent while one is outstanding".to_string()));
          }
        } else {
          if closed {
            return Err(Violation::new("closed_without_ping", format!("tick closed the connection while no PING was outstanding ({:?})", evts)));
          }
          let must = now.duration_since(act_hi) >= ivl;
          let must_not = now.duration_since(act_lo) < ivl;
          if !must && !must_not {
            ambiguous += 1;
            // adopt the engine's choice
            if pinged {
              waiting = Some(now);
              traffic_since_ping = false;
              pings += 1;
            }
          } else if pinged != must {
            return Err(Violation::new(
              if pinged { "ping_too_early" } else { "ping_missing" },
              format!("ivl {} ms: tick {:?}..{:?} after the last activity, pinged={}", c.ivl, now.duration_since(act_hi), now.duration_since(act_lo), pinged),
            ));
          } else if pinged {
            // PING must carry no more than its fixed part here and TTL derived from the timeout
            waiting = Some(now);
            traffic_since_ping = false;
            pings += 1;
          }
        }
      }
    }
  }
  rec.count("ambiguous_skipped", ambiguous);
  rec.nontrivial = pings > 0;
  rec.label_if(pings > 0, "ping_sent");
  Ok(())
}

// --- (5) heartbeat round trip between two engines under every mechanism -----------------------------

#[derive(Clone, Debug, Serialize, Deserialize)]
pub struct MechCase {
  pub mech: crate::pair::Mech,
  pub pinger_is_server: bool,
  pub data_before: u8,
}

fn prop_mech(c: &MechCase, rec: &mut CaseRec) -> Result<(), Violation> {
  use crate::pair::{EndSpec, Pair};
  rec.nontrivial = true;
  rec.label(c.mech.name());
  let mut s = EndSpec::new("DEALER", true, c.mech);
  let mut cl = EndSpec::new("DEALER", false, c.mech);
  for e in [&mut s, &mut cl] {
    e.plain = Some(("u".into(), "p".into()));
    e.heartbeat = Some((1, 10_000));
  }
  s.key_seed = 61;
  cl.key_seed = 62;
  cl.peer_key_seed = Some(61);
  let mut p = Pair::new(s.build().map_err(|e| Violation::new("engine_build", e))?, cl.build().map_err(|e| Violation::new("engine_build", e))?);
  p.run(&[]);
  if !p.a.completed() || !p.b.completed() {
    return Err(Violation::new("harness_handshake", format!("{:?} {:?}", p.a.apps, p.b.apps)));
  }
  for k in 0..c.data_before {
    let mut fb = rzmq::FrameBatch::new();
    fb.push(rzmq::Msg::from_vec(vec![k; 10]));
    p.app_send(!c.pinger_is_server, fb);
  }
  p.run(&[]);
  std::thread::sleep(Duration::from_millis(3));
  let out = if c.pinger_is_server { p.a.eng.on_tick(Instant::now()) } else { p.b.eng.on_tick(Instant::now()) };
  let mut wire_out = Vec::new();
  let mut evts = Vec::new();
  crate::pair::absorb(out, &mut wire_out, &mut evts);
  if wire_out.is_empty() {
    return Err(Violation::new("ping_missing", format!("{}: idle for 3 ms with HEARTBEAT_IVL 1 ms, tick sent nothing", c.mech.name())));
  }
  if c.pinger_is_server {
    p.b.inbox.extend(wire_out);
  } else {
    p.a.inbox.extend(wire_out);
  }
  p.run(&[]);
  let (pinger, ponger) = if c.pinger_is_server { (&p.a, &p.b) } else { (&p.b, &p.a) };
  if pinger.eng.is_waiting_for_pong() || ponger.errored() || pinger.errored() {
    return Err(
      Violation::new(
        "heartbeat_unanswered",
        format!("{}: PING sent, peer events {:?}, pinger still waiting={} (a live peer would be disconnected at HEARTBEAT_TIMEOUT)", c.mech.name(), ponger.apps.iter().filter(|e| matches!(e, AppEvt::Error(_))).collect::<Vec<_>>(), pinger.eng.is_waiting_for_pong()),
      )
      .with("mech", c.mech.name())
      .with("layer", "engine"),
    );
  }
  Ok(())
}

pub fn run(run: &mut Run) {
  run.rule = "pure: v3 NULL/PLAIN engines in the data phase fed generated sequences of PING (context 0..39 bytes, any TTL), truncated PING, PONG, odd commands and data frames under random segmentation; v2 engines ticked at arbitrary future instants; egress buffer op sequences (push chunk of whole frames / push_priority control frame / advance n) against a reference queue; timed: timelines of Tick/InData/InPong/InPing/Outbound/Sleep(1..24 ms) with HEARTBEAT_IVL 5..39 ms and TIMEOUT 5..59 ms judged on measured instants. Non-trivial = at least one valid PING in the input (pure), a priority push while a chunk is partially written (egress), at least one PING emitted (timed). Distinct = hash of the case".into();
  run.assumptions = vec![
    "timed part uses the real clock: a tick whose measured bracket straddles HEARTBEAT_IVL is counted as ambiguous and the engine's choice is adopted".into(),
    "the engine stamps activity with Instant::now() internally, so virtual time is not used".into(),
  ];
  let (n_ping, n_v2, n_eg, n_timed) = match run.tier {
    Tier::Quick => (8000, 500, 10_000, 400),
    Tier::Thorough => (200_000, 10_000, 300_000, 8000),
  };
  run.prop("ping_pong", n_ping, 16, 500, ping_strategy(), prop_ping);
  let v2 = (any::<bool>(), 1u16..100, 1u16..100, prop::collection::vec(0u32..u32::MAX / 2, 1..20)).prop_map(|(server, ivl, timeout, ticks)| V2Case { server, ivl, timeout, ticks });
  run.prop("v2_never_heartbeats", n_v2, 8, 50, v2, prop_v2);
  run.prop("egress_model", n_eg, 16, 1000, egress_strategy(), prop_egress);
  run.prop("timed_timelines", n_timed, 16, 40, timed_strategy(), prop_timed);
  let mech = (prop::sample::select(crate::pair::Mech::ALL.to_vec()), any::<bool>(), 0u8..4).prop_map(|(mech, pinger_is_server, data_before)| MechCase { mech, pinger_is_server, data_before });
  run.prop("mechanism_roundtrip", n_v2, 8, 20, mech, prop_mech);
  crate::props::c19_l2::run(run);
}
