//! C17, stack level: faults on some connections of a socket while a healthy peer keeps
//! exchanging numbered traffic; refused inproc connects; reconnect back-off observed at a raw
//! listener that accepts and closes.

use crate::engine::{fill, panic_log_len, panic_log_since, CaseRec, Run, Tier, Violation};
use crate::stack::{self, l2_result, run_l2, RawListener, Rt, Transport, L2};
use crate::wire::{self, RefFrame};
use proptest::prelude::*;
use rzmq::socket::options as opt;
use serde::{Deserialize, Serialize};
use std::time::{Duration, Instant};

#[derive(Clone, Debug, Serialize, Deserialize, PartialEq, Eq)]
pub enum Fault {
  GarbageAtGreeting,
  GarbageAfterGreeting,
  WrongMechanism,
  IncompatibleSocketType,
  ErrorCommandInData,
  OversizeFrame,
  ResetAfterHandshake,
  HalfCloseAfterHandshake,
  ConnectBurst(u8),
  HandshakeThenSilence,
}

#[derive(Clone, Debug, Serialize, Deserialize)]
pub struct ListenerCase {
  pub transport: Transport,
  pub faults: Vec<Fault>,
  pub rt: Rt,
}

fn fault_strategy() -> impl Strategy<Value = Fault> + Clone {
  prop_oneof![
    Just(Fault::GarbageAtGreeting),
    Just(Fault::GarbageAfterGreeting),
    Just(Fault::WrongMechanism),
    Just(Fault::IncompatibleSocketType),
    Just(Fault::ErrorCommandInData),
    Just(Fault::OversizeFrame),
    Just(Fault::ResetAfterHandshake),
    Just(Fault::HalfCloseAfterHandshake),
    (10u8..50).prop_map(Fault::ConnectBurst),
    Just(Fault::HandshakeThenSilence),
  ]
}

fn honest_hs(peer_type: &str) -> Vec<u8> {
  let mut v = wire::greeting_v3(0, "NULL", false);
  wire::encode_frame(&wire::ready(peer_type, None), &mut v);
  v
}

async fn roundtrip(push: &rzmq::Socket, pull: &rzmq::Socket, tag: u8) -> Result<(), String> {
  for i in 0..3u8 {
    push.send(rzmq::Msg::from_vec(vec![b'H', tag, i])).await.map_err(|e| format!("healthy send failed: {}", e))?;
  }
  let mut got = 0;
  let deadline = Instant::now() + Duration::from_secs(6);
  while got < 3 {
    if Instant::now() > deadline {
      return Err("healthy traffic stalled (6 s)".into());
    }
    match pull.recv().await {
      Ok(m) => {
        let d = m.data().unwrap_or(&[]);
        if d.len() == 3 && d[0] == b'H' && d[1] == tag {
          got += 1;
        }
      }
      Err(rzmq::ZmqError::Timeout) => continue,
      Err(e) => return Err(format!("healthy recv failed: {}", e)),
    }
  }
  Ok(())
}

async fn inject(fault: &Fault, ep: &str) -> Result<(), String> {
  let mut raw = stack::raw_connect(ep).await.map_err(|e| format!("raw connect: {}", e))?;
  match fault {
    Fault::GarbageAtGreeting => {
      let _ = raw.write_all(&fill(80, 1)).await;
    }
    Fault::GarbageAfterGreeting => {
      let mut b = wire::greeting_v3(0, "NULL", false);
      b.extend(fill(120, 2));
      let _ = raw.write_all(&b).await;
    }
    Fault::WrongMechanism => {
      let mut b = wire::greeting_v3(0, "PLAIN", false);
      wire::encode_frame(&wire::plain_hello(b"x", b"y"), &mut b);
      let _ = raw.write_all(&b).await;
    }
    Fault::IncompatibleSocketType => {
      let _ = raw.write_all(&honest_hs("PUB")).await;
    }
    Fault::ErrorCommandInData => {
      let mut b = honest_hs("PUSH");
      wire::encode_frame(&wire::error_cmd("boom"), &mut b);
      let _ = raw.write_all(&b).await;
    }
    Fault::OversizeFrame => {
      let mut b = honest_hs("PUSH");
      b.push(0x02);
      b.extend_from_slice(&(1u64 << 40).to_be_bytes());
      b.extend(fill(64, 3));
      let _ = raw.write_all(&b).await;
    }
    Fault::ResetAfterHandshake => {
      let _ = raw.write_all(&honest_hs("PUSH")).await;
      tokio::time::sleep(Duration::from_millis(60)).await;
      raw.reset();
      return Ok(());
    }
    Fault::HalfCloseAfterHandshake => {
      let _ = raw.write_all(&honest_hs("PUSH")).await;
      tokio::time::sleep(Duration::from_millis(30)).await;
      raw.shutdown_write().await;
    }
    Fault::ConnectBurst(n) => {
      drop(raw);
      for i in 0..*n {
        if let Ok(mut r) = stack::raw_connect(ep).await {
          if i % 3 == 0 {
            let _ = r.write_all(&wire::signature()).await;
          }
          if i % 2 == 0 {
            r.reset();
          }
        }
      }
      return Ok(());
    }
    Fault::HandshakeThenSilence => {
      let _ = raw.write_all(&honest_hs("PUSH")).await;
      tokio::time::sleep(Duration::from_millis(100)).await;
    }
  }
  tokio::time::sleep(Duration::from_millis(80)).await;
  drop(raw);
  Ok(())
}

async fn listener_body(c: &ListenerCase) -> L2 {
  let ctx = match rzmq::Context::new() {
    Ok(x) => x,
    Err(e) => return L2::Inconclusive(e.to_string()),
  };
  let panics_before = panic_log_len();
  let opts = vec![stack::i32opt(opt::RCVTIMEO, 1000), (opt::MAXMSGSIZE, (1i64 << 20).to_ne_bytes().to_vec())];
  let (pull, ep) = match stack::bound(&ctx, "PULL", c.transport, &opts).await {
    Ok(x) => x,
    Err(e) => return L2::Inconclusive(e),
  };
  let mon = pull.monitor_default().await.ok();
  let push = match stack::connected(&ctx, "PUSH", &ep, &[stack::i32opt(opt::SNDTIMEO, 4000)]).await {
    Ok(s) => s,
    Err(e) => return L2::Inconclusive(e),
  };
  if let Err(e) = roundtrip(&push, &pull, 0).await {
    return L2::Inconclusive(format!("baseline: {}", e));
  }
  let mut verdict = L2::Ok;
  for (i, f) in c.faults.iter().enumerate() {
    if let Err(e) = inject(f, &ep).await {
      verdict = L2::Inconclusive(e);
      break;
    }
    if let Err(e) = roundtrip(&push, &pull, i as u8 + 1).await {
      verdict = L2::Violation(
        Violation::new("failure_not_local", format!("{} after fault {:?} on another connection: {}", c.transport.name(), f, e))
          .with("layer", "stack")
          .with("transport", c.transport.name())
          .with("fault", format!("{:?}", f).split('(').next().unwrap_or("").to_string()),
      );
      break;
    }
  }
  if matches!(verdict, L2::Ok) {
    // the socket still accepts a fresh honest peer
    match stack::connected(&ctx, "PUSH", &ep, &[stack::i32opt(opt::SNDTIMEO, 4000)]).await {
      Ok(fresh) => {
        if let Err(e) = roundtrip(&fresh, &pull, 200).await {
          verdict = L2::Violation(Violation::new("listener_dead", format!("fresh honest peer after {:?}: {}", c.faults, e)).with("layer", "stack").with("transport", c.transport.name()));
        }
        let _ = fresh.close().await;
      }
      Err(e) => verdict = L2::Inconclusive(e),
    }
  }
  if matches!(verdict, L2::Ok) {
    let new_panics: Vec<_> = panic_log_since(panics_before).into_iter().filter(|(_, _, loc)| !loc.contains("harness/src")).collect();
    if let Some((_, msg, loc)) = new_panics.first() {
      verdict = L2::Violation(Violation::new("panic", format!("{} at {}", msg.chars().take(100).collect::<String>(), loc)).with("where", loc.clone()).with("layer", "stack"));
    }
  }
  drop(mon);
  let _ = push.close().await;
  let _ = pull.close().await;
  stack::term(&ctx).await;
  verdict
}

// --- refused inproc connect --------------------------------------------------------------------------

#[derive(Clone, Debug, Serialize, Deserialize)]
pub struct InprocCase {
  pub binder: String,
  pub healthy: String,
  pub intruder: String,
  pub rt: Rt,
}

async fn inproc_body(c: &InprocCase) -> L2 {
  let ctx = match rzmq::Context::new() {
    Ok(x) => x,
    Err(e) => return L2::Inconclusive(e.to_string()),
  };
  let (binder, ep) = match stack::bound(&ctx, &c.binder, Transport::Inproc, &[stack::i32opt(opt::RCVTIMEO, 1000), stack::i32opt(opt::SNDTIMEO, 2000)]).await {
    Ok(x) => x,
    Err(e) => return L2::Inconclusive(e),
  };
  let healthy = match stack::connected(&ctx, &c.healthy, &ep, &[stack::i32opt(opt::SNDTIMEO, 2000), stack::i32opt(opt::RCVTIMEO, 1000)]).await {
    Ok(s) => s,
    Err(e) => return L2::Inconclusive(e),
  };
  // PUSH -> PULL direction decides who sends
  let (tx, rx) = if c.binder == "PULL" { (&healthy, &binder) } else { (&binder, &healthy) };
  if let Err(e) = roundtrip(tx, rx, 0).await {
    return L2::Inconclusive(format!("baseline: {}", e));
  }
  let intruder = match ctx.socket(stack::stype(&c.intruder)) {
    Ok(s) => s,
    Err(e) => return L2::Inconclusive(e.to_string()),
  };
  let res = tokio::time::timeout(Duration::from_secs(3), intruder.connect(&ep)).await;
  let refused = matches!(res, Ok(Err(_)));
  tokio::time::sleep(Duration::from_millis(100)).await;
  let verdict = match roundtrip(tx, rx, 1).await {
    Err(e) => L2::Violation(
      Violation::new("failure_not_local", format!("inproc: a {} tried to connect to a bound {} (refused={}); afterwards the binder's healthy {} peer: {}", c.intruder, c.binder, refused, c.healthy, e))
        .with("layer", "stack")
        .with("transport", "inproc")
        .with("fault", "IncompatibleSocketType"),
    ),
    Ok(()) => {
      if !refused {
        L2::Violation(Violation::new("incompatible_inproc_accepted", format!("{} connecting to {} over inproc was not refused ({:?})", c.intruder, c.binder, res.map(|r| r.is_ok()))).with("layer", "stack"))
      } else {
        L2::Ok
      }
    }
  };
  let _ = intruder.close().await;
  let _ = healthy.close().await;
  let _ = binder.close().await;
  stack::term(&ctx).await;
  verdict
}

// --- reconnect back-off at a raw listener ------------------------------------------------------------------

#[derive(Clone, Debug, Serialize, Deserialize)]
pub struct BackoffCase {
  pub transport: Transport,
  pub ivl_ms: u16,
  pub max_ms: u16,
  pub rejects: u8,
}

async fn backoff_body(c: &BackoffCase) -> L2 {
  let ctx = match rzmq::Context::new() {
    Ok(x) => x,
    Err(e) => return L2::Inconclusive(e.to_string()),
  };
  let (l, ep) = match RawListener::bind(c.transport).await {
    Ok(x) => x,
    Err(e) => return L2::Inconclusive(e.to_string()),
  };
  // a second, healthy connection of the same socket
  let (hpull, hep) = match stack::bound(&ctx, "PULL", c.transport, &[stack::i32opt(opt::RCVTIMEO, 1000)]).await {
    Ok(x) => x,
    Err(e) => return L2::Inconclusive(e),
  };
  let push = match ctx.socket(stack::stype("PUSH")) {
    Ok(s) => s,
    Err(e) => return L2::Inconclusive(e.to_string()),
  };
  let o = vec![stack::i32opt(opt::RECONNECT_IVL, c.ivl_ms as i32), stack::i32opt(opt::RECONNECT_IVL_MAX, c.max_ms as i32), stack::i32opt(opt::SNDTIMEO, 3000)];
  if let Err(e) = stack::set_opts(&push, &o).await {
    return L2::Inconclusive(e);
  }
  if let Err(e) = push.connect(&hep).await {
    return L2::Inconclusive(e.to_string());
  }
  if let Err(e) = push.connect(&ep).await {
    return L2::Inconclusive(e.to_string());
  }
  let mut stamps: Vec<Instant> = Vec::new();
  for _ in 0..c.rejects {
    match l.accept(Duration::from_secs(15)).await {
      Some(s) => {
        stamps.push(Instant::now());
        s.reset();
      }
      None => break,
    }
  }
  let v = |check: &str, d: String| L2::Violation(Violation::new(check, d).with("layer", "stack").with("transport", c.transport.name()));
  if stamps.len() < c.rejects as usize {
    let r = v("reconnect_stopped", format!("only {} of {} connection attempts arrived within 15 s each (ivl {} max {})", stamps.len(), c.rejects, c.ivl_ms, c.max_ms));
    stack::term(&ctx).await;
    return r;
  }
  let gaps: Vec<u128> = stamps.windows(2).map(|w| w[1].duration_since(w[0]).as_millis()).collect();
  // now behave: honest PULL handshake, then expect a data frame
  let resumed = match l.accept(Duration::from_secs(15)).await {
    Some(mut s) => {
      let mut hs = wire::greeting_v3(0, "NULL", true);
      wire::encode_frame(&wire::ready("PULL", None), &mut hs);
      let _ = s.write_all(&hs).await;
      // traffic: the PUSH round-robins between the healthy PULL and us; send until we see data
      let mut seen = false;
      for k in 0..40u8 {
        if push.send(rzmq::Msg::from_vec(vec![b'R', k])).await.is_err() {
          break;
        }
        let (bytes, _) = s.read_at_least(1, Duration::from_millis(50)).await;
        if bytes.windows(2).any(|w| w[0] == b'R') {
          seen = true;
          break;
        }
      }
      // drain the healthy side
      while let Ok(Ok(_)) = tokio::time::timeout(Duration::from_millis(20), hpull.recv()).await {}
      seen
    }
    None => false,
  };
  let slack = 1500u128; // session minimum lifespan (1 s) + scheduling
  let mut verdict = L2::Ok;
  for (i, g) in gaps.iter().enumerate() {
    if (*g as f64) < 0.8 * c.ivl_ms as f64 {
      verdict = match v("reconnect_too_soon", format!("gap {} ms before attempt {} with RECONNECT_IVL {} (gaps {:?})", g, i + 2, c.ivl_ms, gaps)) {
        L2::Violation(x) => L2::Violation(x.with("sub", "reconnect_observed")),
        other => other,
      };
      break;
    }
    if c.max_ms > 0 && *g > c.max_ms as u128 + slack {
      verdict = v("reconnect_exceeds_max", format!("gap {} ms with RECONNECT_IVL_MAX {} (gaps {:?})", g, c.max_ms, gaps));
      break;
    }
    if i > 0 && *g > 2 * gaps[i - 1] + slack {
      verdict = v("reconnect_faster_than_geometric", format!("gap {} ms after {} ms (gaps {:?})", g, gaps[i - 1], gaps));
      break;
    }
  }
  if matches!(verdict, L2::Ok) && !resumed {
    verdict = v("traffic_not_resumed", format!("after {} rejected attempts the listener behaved, but no data arrived (gaps {:?})", c.rejects, gaps));
  }
  let _ = push.close().await;
  let _ = hpull.close().await;
  stack::term(&ctx).await;
  verdict
}


/// Back-off against a port nobody listens on, while other sockets of the same context come and
/// go: every refused attempt is announced on the monitor (ConnectRetried carries the delay the
/// connecter is about to wait). The number of attempts within the window is bounded by the
/// geometric schedule; unrelated activity in the context must not add attempts.
#[derive(Clone, Debug, Serialize, Deserialize)]
pub struct RefusedCase {
  pub ivl_ms: u16,
  pub window_ms: u16,
  pub churn_gap_ms: u8,
}

async fn refused_body(c: &RefusedCase) -> L2 {
  let ctx = match rzmq::Context::new() {
    Ok(x) => x,
    Err(e) => return L2::Inconclusive(e.to_string()),
  };
  // a port that refuses: bind, note the address, close
  let ep = {
    let l = match std::net::TcpListener::bind("127.0.0.1:0") {
      Ok(l) => l,
      Err(e) => return L2::Inconclusive(e.to_string()),
    };
    format!("tcp://{}", l.local_addr().unwrap())
  };
  let push = match ctx.socket(stack::stype("PUSH")) {
    Ok(s) => s,
    Err(e) => return L2::Inconclusive(e.to_string()),
  };
  if let Err(e) = stack::set_opts(&push, &[stack::i32opt(opt::RECONNECT_IVL, c.ivl_ms as i32), stack::i32opt(opt::RECONNECT_IVL_MAX, 0)]).await {
    return L2::Inconclusive(e);
  }
  let mon = match push.monitor_default().await {
    Ok(m) => m,
    Err(e) => return L2::Inconclusive(e.to_string()),
  };
  // unrelated actors starting and stopping in the same context
  let ctx2 = ctx.clone();
  let gap = c.churn_gap_ms as u64;
  let stop = std::sync::Arc::new(std::sync::atomic::AtomicBool::new(false));
  let stop2 = stop.clone();
  let churn = tokio::spawn(async move {
    let mut n = 0u32;
    while !stop2.load(std::sync::atomic::Ordering::Relaxed) {
      if let Ok((s, _)) = stack::bound(&ctx2, "PULL", Transport::Ipc, &[]).await {
        let _ = s.close().await;
        n += 1;
      }
      tokio::time::sleep(Duration::from_millis(gap)).await;
    }
    n
  });
  let t0 = Instant::now();
  if let Err(e) = push.connect(&ep).await {
    return L2::Inconclusive(e.to_string());
  }
  let mut retries: Vec<(u128, u128)> = Vec::new(); // (when, announced delay)
  while t0.elapsed() < Duration::from_millis(c.window_ms as u64) {
    let left = Duration::from_millis(c.window_ms as u64).saturating_sub(t0.elapsed());
    match tokio::time::timeout(left, mon.recv()).await {
      Ok(Ok(rzmq::socket::SocketEvent::ConnectRetried { interval, .. })) => retries.push((t0.elapsed().as_millis(), interval.as_millis())),
      Ok(Ok(_)) => {}
      _ => break,
    }
  }
  stop.store(true, std::sync::atomic::Ordering::Relaxed);
  let churned = churn.await.unwrap_or(0);
  // schedule: attempt k waits ivl * 2^(k-1): within the window at most log2(window/ivl + 1) + 1 waits begin
  // delays start at RECONNECT_IVL and may stay there (growth is 'at most' geometric): no more waits
  // can begin inside the window than window / ivl, plus the first and one for rounding
  let max_waits = (c.window_ms as usize / c.ivl_ms as usize) + 2;
  let v = |check: &str, d: String| L2::Violation(Violation::new(check, d).with("layer", "stack").with("transport", "tcp").with("sub", "refused_backoff_under_actor_churn"));
  let mut verdict = L2::Ok;
  if retries.len() > max_waits {
    verdict = v("reconnect_too_soon", format!("{} retry waits were announced within {} ms against a refusing port with RECONNECT_IVL {} (at most {} waits of at least RECONNECT_IVL fit; {} unrelated sockets were opened and closed meanwhile); (time, delay) = {:?}", retries.len(), c.window_ms, c.ivl_ms, max_waits, churned, &retries[..retries.len().min(10)]));
  } else {
    for w in retries.windows(2) {
      // the next wait cannot begin before the previous one (of the announced length) is over
      if (w[1].0 as f64) < w[0].0 as f64 + 0.8 * w[0].1 as f64 {
        verdict = v("reconnect_too_soon", format!("a retry wait of {} ms was announced at {} ms and the next one already at {} ms ({} unrelated sockets were opened and closed meanwhile)", w[0].1, w[0].0, w[1].0, churned));
        break;
      }
    }
  }
  // the peer becomes reachable: the connection has to come now, whatever the other sockets did
  {
    let addr = ep.trim_start_matches("tcp://").to_string();
    match tokio::net::TcpListener::bind(&addr).await {
      Ok(l) => {
        let wait = Duration::from_millis(3 * c.ivl_ms as u64 + 2500);
        if tokio::time::timeout(wait, l.accept()).await.is_err() {
          verdict = v("reconnect_stopped", format!("a listener appeared on the refused port after {} ms of retries; no connection attempt arrived within {:?} (RECONNECT_IVL {}, {} unrelated sockets were opened and closed during the back-off)", c.window_ms, wait, c.ivl_ms, churned));
        }
      }
      Err(_) => {}
    }
  }
  let _ = push.close().await;
  stack::term(&ctx).await;
  if retries.is_empty() && matches!(verdict, L2::Ok) {
    return L2::Inconclusive("no ConnectRetried event was observed".into());
  }
  verdict
}

pub fn run(run: &Run) {
  let (n_l, n_i, n_b) = match run.tier {
    Tier::Quick => (24, 12, 18),
    Tier::Thorough => (600, 200, 60),
  };
  let lc = (prop::sample::select(vec![Transport::Tcp, Transport::Ipc]), prop::collection::vec(fault_strategy(), 1..4), prop::sample::select(vec![Rt::Current, Rt::Multi(2)]))
    .prop_map(|(transport, faults, rt)| ListenerCase { transport, faults, rt });
  run.prop("listener_faults", n_l, 6, 6, lc, |c, rec: &mut CaseRec| {
    rec.nontrivial = true;
    for f in &c.faults {
      rec.label(match f {
        Fault::GarbageAtGreeting | Fault::GarbageAfterGreeting => "garbage",
        Fault::WrongMechanism => "wrong_mechanism",
        Fault::IncompatibleSocketType => "incompatible_type",
        Fault::ErrorCommandInData | Fault::OversizeFrame => "data_phase_fault",
        Fault::ResetAfterHandshake | Fault::HalfCloseAfterHandshake => "rst_or_half_close",
        Fault::ConnectBurst(_) => "connect_burst",
        Fault::HandshakeThenSilence => "silence",
      });
    }
    let r = run_l2(c.rt, Duration::from_secs(60), listener_body(c));
    l2_result(run, "listener_faults", r)
  });
  let ic = (
    prop::sample::select(vec![("PULL", "PUSH"), ("PUSH", "PULL")]),
    prop::sample::select(vec!["SUB", "REQ", "PUB", "REP", "DEALER", "ROUTER"]),
    prop::sample::select(vec![Rt::Current, Rt::Multi(2)]),
  )
    .prop_map(|((b, h), i, rt)| InprocCase { binder: b.into(), healthy: h.into(), intruder: i.into(), rt });
  run.prop("inproc_refusal", n_i, 4, 4, ic, |c, rec: &mut CaseRec| {
    rec.nontrivial = true;
    rec.label("inproc");
    let r = run_l2(c.rt, Duration::from_secs(30), inproc_body(c));
    l2_result(run, "inproc_refusal", r)
  });
  let bc = (prop::sample::select(vec![Transport::Tcp, Transport::Ipc]), prop::sample::select(vec![20u16, 50, 100]), prop::sample::select(vec![0u16, 200, 400]), 3u8..6)
    .prop_map(|(transport, ivl_ms, max_ms, rejects)| BackoffCase { transport, ivl_ms, max_ms: if max_ms == 0 { 0 } else { max_ms.max(ivl_ms) }, rejects });
  run.prop("reconnect_observed", n_b, 3, 2, bc, |c, rec: &mut CaseRec| {
    rec.nontrivial = true;
    rec.label_if(c.max_ms > 0, "max_set");
    let r = run_l2(Rt::Multi(2), Duration::from_secs(90), backoff_body(c));
    l2_result(run, "reconnect_observed", r)
  });
  let rc = (prop::sample::select(vec![50u16, 100, 200]), prop::sample::select(vec![600u16, 1000]), prop::sample::select(vec![3u8, 10, 25])).prop_map(|(ivl_ms, window_ms, churn_gap_ms)| RefusedCase { ivl_ms, window_ms, churn_gap_ms });
  run.prop("refused_backoff_under_actor_churn", (n_b / 3).max(4), 4, 2, rc, |c, rec: &mut CaseRec| {
    rec.nontrivial = true;
    rec.label("refusing_port");
    let r = run_l2(Rt::Multi(2), Duration::from_secs(60), refused_body(c));
    l2_result(run, "refused_backoff_under_actor_churn", r)
  });
  stack::cleanup_scratch();
}
