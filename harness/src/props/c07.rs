//! C07 — no byte stream from a peer can crash rzmq or make it buffer without bound.
//!
//! L1: (1) honest transcripts (v3 NULL / PLAIN / v2, both roles) mutated statically with byte-
//! and frame-aware mutators, (2) live engine pairs of all four mechanisms with a man-in-the-
//! middle rewriting the stream towards the engine under test, (3) the stand-alone parsers on
//! structured and random bytes, (4) the MAXMSGSIZE boundary. Oracles: no panic; the engine's
//! read buffer stays within max(64, MAXMSGSIZE + 9) + one chunk (encrypted sessions: one 64 KiB
//! record); an error is terminal; limit is accepted, limit + 1 refused.
//! L2: see c07_l2.

use crate::engine::{fill, CaseRec, Run, Tier, Violation};
use crate::pair::{EndSpec, Mech, Mitm, MitmOp, Pair, Side};
use crate::props::c04::{transcript_strategy, Proto, Transcript};
use crate::wire::{self, RefDecode, RefFrame};
use bytes::{Bytes, BytesMut};
use proptest::prelude::*;
use rzmq::protocol::zmtp::engine::ZmtpPhase;
use rzmq::protocol::zmtp::manual_parser::ZmtpManualParser;
use serde::{Deserialize, Serialize};

const LEN_EXTREMES: [u64; 12] =
  [0, 255, 256, 1 << 31, 1 << 63, u64::MAX - 9, u64::MAX - 8, u64::MAX - 2, u64::MAX - 1, u64::MAX, (1 << 32) + 5, 65536];

#[derive(Clone, Debug, Serialize, Deserialize)]
pub enum Mutator {
  Flip { at: u16, bit: u8 },
  Set { at: u16, byte: u8 },
  Insert { at: u16, len: u8, seed: u16 },
  Delete { at: u16, n: u8 },
  Truncate { at: u16 },
  /// Rewrite the length field of frame `idx` to an extreme; `long` chooses the header form,
  /// `keep_body` leaves the body bytes in place.
  Len { idx: u8, which: u8, long: bool },
  DupFrame { idx: u8 },
  DropFrame { idx: u8 },
  SwapFrames { idx: u8 },
  /// Append `n` MORE-flagged frames after the stream.
  MoreRun { n: u16 },
  /// Invalid UTF-8 in a metadata property name of a READY appended/inserted at frame idx.
  BadUtf8Ready { idx: u8 },
  /// READY whose value length exceeds the body.
  BadValueLenReady { idx: u8 },
  RandomTail { len: u16, seed: u16 },
  /// Replace handshake frame `idx` by a crafted security command whose metadata-encoded body
  /// carries one well-known property with a value of `value_len` bytes (CURVE token parsers).
  CraftedToken { idx: u8, cmd: u8, prop: u8, value_len: u8 },
  /// A correctly framed COMMAND whose body is a known command name followed by only `extra`
  /// argument bytes (0..3): PING without its TTL, READY without properties, ERROR without a
  /// reason length... inserted before frame `idx`, or appended (data phase) when `append`.
  ShortCommand { idx: u8, name: u8, extra: u8, append: bool },
}

fn mutator_strategy() -> impl Strategy<Value = Mutator> + Clone {
  // positions biased towards the first ~160 bytes (greeting + handshake commands)
  let at = prop_oneof![3 => 0u16..2600, 2 => any::<u16>()];
  let byte_level = prop_oneof![
    3 => (at.clone(), 0u8..8).prop_map(|(at, bit)| Mutator::Flip { at, bit }),
    2 => (at.clone(), any::<u8>()).prop_map(|(at, byte)| Mutator::Set { at, byte }),
    2 => (at.clone(), 1u8..20, any::<u16>()).prop_map(|(at, len, seed)| Mutator::Insert { at, len, seed }),
    2 => (at.clone(), 1u8..20).prop_map(|(at, n)| Mutator::Delete { at, n }),
    1 => at.prop_map(|at| Mutator::Truncate { at }),
    1 => (1u16..300, any::<u16>()).prop_map(|(len, seed)| Mutator::RandomTail { len, seed }),
  ];
  let frame_level = prop_oneof![
    4 => (0u8..12, 0u8..12, any::<bool>()).prop_map(|(idx, which, long)| Mutator::Len { idx, which, long }),
    1 => (0u8..12).prop_map(|idx| Mutator::DupFrame { idx }),
    1 => (0u8..12).prop_map(|idx| Mutator::DropFrame { idx }),
    1 => (0u8..12).prop_map(|idx| Mutator::SwapFrames { idx }),
    2 => prop_oneof![Just(254u16), Just(255), Just(256), Just(257), 258u16..400].prop_map(|n| Mutator::MoreRun { n }),
    1 => (0u8..4).prop_map(|idx| Mutator::BadUtf8Ready { idx }),
    1 => (0u8..4).prop_map(|idx| Mutator::BadValueLenReady { idx }),
    3 => (0u8..4, 0u8..3, 0u8..4, prop_oneof![0u8..20, 0u8..120]).prop_map(|(idx, cmd, prop, value_len)| Mutator::CraftedToken { idx, cmd, prop, value_len }),
    3 => (0u8..12, 0u8..9, 0u8..4, any::<bool>()).prop_map(|(idx, name, extra, append)| Mutator::ShortCommand { idx, name, extra, append }),
  ];
  prop_oneof![11 => byte_level, 11 => frame_level]
}

/// Frame layout (start, header len, body len) of `stream[from..]` per the reference decoder.
fn frame_layout(stream: &[u8], from: usize) -> Vec<(usize, usize, usize)> {
  let mut v = Vec::new();
  let mut off = from;
  while off < stream.len() {
    match wire::decode_frame(&stream[off..]) {
      RefDecode::Frame(f, n) => {
        v.push((off, n - f.body.len(), f.body.len()));
        off += n;
      }
      _ => break,
    }
  }
  v
}

fn bad_ready(utf8: bool) -> Vec<u8> {
  let mut body = vec![5u8];
  body.extend_from_slice(b"READY");
  if utf8 {
    body.push(2);
    body.extend_from_slice(&[0xC3, 0x28]);
    body.extend_from_slice(&3u32.to_be_bytes());
    body.extend_from_slice(b"abc");
  } else {
    body.push(11);
    body.extend_from_slice(b"Socket-Type");
    body.extend_from_slice(&4000u32.to_be_bytes());
    body.extend_from_slice(b"PUSH");
  }
  let mut out = Vec::new();
  wire::encode_frame(&RefFrame::cmd(body), &mut out);
  out
}

/// Translates mutators into MITM operations on `stream` (frames start at `frames_from`).
pub fn to_ops(muts: &[Mutator], stream: &[u8], frames_from: usize) -> Vec<MitmOp> {
  let total = stream.len();
  let lay = frame_layout(stream, frames_from);
  let pos = |at: u16| -> usize {
    if (at as usize) < 2600 {
      (at as usize) % total.max(1)
    } else {
      (at as usize * total) >> 16
    }
  };
  let fr = |idx: u8| -> Option<(usize, usize, usize)> {
    if lay.is_empty() {
      None
    } else {
      Some(lay[idx as usize % lay.len()])
    }
  };
  let mut ops = Vec::new();
  for m in muts {
    match m {
      Mutator::Flip { at, bit } => ops.push(MitmOp::Flip { pos: pos(*at), bit: *bit }),
      Mutator::Set { at, byte } => ops.push(MitmOp::Replace { pos: pos(*at), del: 1, ins: vec![*byte] }),
      Mutator::Insert { at, len, seed } => ops.push(MitmOp::Replace { pos: pos(*at), del: 0, ins: fill(*len as usize, *seed as u64) }),
      Mutator::Delete { at, n } => ops.push(MitmOp::Replace { pos: pos(*at), del: *n as usize, ins: vec![] }),
      Mutator::Truncate { at } => ops.push(MitmOp::Truncate { pos: pos(*at) }),
      Mutator::Len { idx, which, long } => {
        if let Some((start, hdr, _)) = fr(*idx) {
          let flags = stream[start];
          let v = LEN_EXTREMES[*which as usize % LEN_EXTREMES.len()];
          let mut h = Vec::new();
          if *long || v > 255 {
            h.push(flags | wire::FLAG_LONG);
            h.extend_from_slice(&v.to_be_bytes());
          } else {
            h.push(flags & !wire::FLAG_LONG);
            h.push(v as u8);
          }
          ops.push(MitmOp::Replace { pos: start, del: hdr, ins: h });
        }
      }
      Mutator::DupFrame { idx } => {
        if let Some((start, hdr, n)) = fr(*idx) {
          ops.push(MitmOp::Replace { pos: start, del: 0, ins: stream[start..start + hdr + n].to_vec() });
        }
      }
      Mutator::DropFrame { idx } => {
        if let Some((start, hdr, n)) = fr(*idx) {
          ops.push(MitmOp::Replace { pos: start, del: hdr + n, ins: vec![] });
        }
      }
      Mutator::SwapFrames { idx } => {
        if lay.len() >= 2 {
          let i = *idx as usize % (lay.len() - 1);
          let (s1, h1, n1) = lay[i];
          let (s2, h2, n2) = lay[i + 1];
          let mut ins = stream[s2..s2 + h2 + n2].to_vec();
          ins.extend_from_slice(&stream[s1..s1 + h1 + n1]);
          ops.push(MitmOp::Replace { pos: s1, del: h1 + n1 + h2 + n2, ins });
        }
      }
      Mutator::MoreRun { n } => {
        let mut ins = Vec::new();
        for i in 0..*n {
          wire::encode_frame(&RefFrame::data(vec![(i % 251) as u8], true), &mut ins);
        }
        ops.push(MitmOp::Replace { pos: total, del: 0, ins });
      }
      Mutator::BadUtf8Ready { idx } | Mutator::BadValueLenReady { idx } => {
        let ins = bad_ready(matches!(m, Mutator::BadUtf8Ready { .. }));
        match fr(*idx) {
          // replace an existing handshake frame so that the bad READY is what the parser meets
          Some((start, hdr, n)) => ops.push(MitmOp::Replace { pos: start, del: hdr + n, ins }),
          None => ops.push(MitmOp::Replace { pos: total, del: 0, ins }),
        }
      }
      Mutator::CraftedToken { idx, cmd, prop, value_len } => {
        let name = ["HELLO", "WELCOME", "INITIATE"][*cmd as usize % 3];
        let pname = ["Public-Key-Client", "Cookie", "Ciphertext", "Public-Key-Server"][*prop as usize % 4];
        let value = fill(*value_len as usize, *value_len as u64 + 1);
        let body = wire::command_body(name, &wire::metadata(&[(pname, &value)]));
        let mut ins = Vec::new();
        wire::encode_frame(&RefFrame::cmd(body), &mut ins);
        match fr(*idx) {
          Some((start, hdr, n)) => ops.push(MitmOp::Replace { pos: start, del: hdr + n, ins }),
          None => ops.push(MitmOp::Replace { pos: total, del: 0, ins }),
        }
      }
      Mutator::ShortCommand { idx, name, extra, append } => {
        let n = ["PING", "PONG", "READY", "ERROR", "SUBSCRIBE", "CANCEL", "HELLO", "WELCOME", "INITIATE"][*name as usize % 9];
        let body = wire::command_body(n, &fill(*extra as usize, *extra as u64 + 3));
        let mut ins = Vec::new();
        wire::encode_frame(&RefFrame::cmd(body), &mut ins);
        match fr(*idx) {
          Some((start, _, _)) if !*append => ops.push(MitmOp::Replace { pos: start, del: 0, ins }),
          _ => ops.push(MitmOp::Replace { pos: total, del: 0, ins }),
        }
      }
      Mutator::RandomTail { len, seed } => ops.push(MitmOp::Replace { pos: total, del: 0, ins: fill(*len as usize, *seed as u64 ^ 0xABCD) }),
    }
  }
  ops
}

fn buffer_bound(maxmsgsize: Option<i64>, encrypted: bool) -> Option<usize> {
  match maxmsgsize {
    Some(m) if m >= 0 => {
      let b = (m as usize + 9).max(64);
      Some(if encrypted { b.max(2 + 65535) } else { b })
    }
    _ => None,
  }
}

fn maxmsgsize_strategy() -> impl Strategy<Value = Option<i64>> + Clone {
  prop_oneof![
    2 => Just(None),
    1 => Just(Some(-1i64)),
    4 => prop::sample::select(vec![0i64, 1, 255, 256, 4096, 1 << 20]).prop_map(Some),
    1 => (0i64..3000).prop_map(Some),
  ]
}

/// After an engine reported an error it must be closed and inert.
fn check_terminal(side: &mut Side, ctx: &str) -> Result<(), Violation> {
  if side.errored() {
    if side.eng.phase != ZmtpPhase::Closed {
      return Err(Violation::new("error_not_terminal", format!("{}: engine reported an error but phase is {}", ctx, crate::pair::phase_name(side.eng.phase))));
    }
    let before = side.apps.len();
    let mut junk = wire::signature();
    junk.extend_from_slice(&fill(80, 5));
    let wire_out = side.feed(&junk);
    if side.apps.len() != before || !wire_out.is_empty() {
      return Err(Violation::new("error_not_terminal", format!("{}: a closed engine still produced {} app events / {} bytes", ctx, side.apps.len() - before, wire_out.len())));
    }
  }
  Ok(())
}

// --- (1) static mutation of replayable transcripts -------------------------------------------------

#[derive(Clone, Debug, Serialize, Deserialize)]
pub struct StaticCase {
  pub t: Transcript,
  pub maxmsgsize: Option<i64>,
  pub muts: Vec<Mutator>,
  pub chunks: Vec<u16>,
}

fn static_strategy() -> impl Strategy<Value = StaticCase> + Clone {
  (
    transcript_strategy(5),
    maxmsgsize_strategy(),
    prop::collection::vec(mutator_strategy(), 1..=3),
    prop::collection::vec(prop_oneof![1 => Just(u16::MAX), 2 => 1u16..100, 1 => 1u16..3000], 0..12),
  )
    .prop_map(|(t, maxmsgsize, muts, chunks)| StaticCase { t, maxmsgsize, muts, chunks })
}

fn prop_static(c: &StaticCase, rec: &mut CaseRec) -> Result<(), Violation> {
  let (hs, data) = c.t.bytes();
  let mut stream = hs;
  stream.extend_from_slice(&data);
  let frames_from = match c.t.proto {
    Proto::V2 => 12,
    _ => 64,
  };
  let ops = to_ops(&c.muts, &stream, frames_from);
  let mut mitm = Mitm::new(ops);
  let mut mutated = mitm.pass(&stream);
  mutated.extend(mitm.tail());
  let mut spec = c.t.local_spec();
  spec.maxmsgsize = c.maxmsgsize;
  let eng = spec.build().map_err(|e| Violation::new("engine_build", e))?;
  let mut side = Side::new(eng);
  side.start();
  let bound = buffer_bound(c.maxmsgsize, false);
  let mut off = 0;
  let mut i = 0;
  let mut reached_after_greeting = false;
  while off < mutated.len() && side.open {
    let n = (c.chunks.get(i).copied().unwrap_or(u16::MAX) as usize).max(1).min(mutated.len() - off);
    i += 1;
    side.feed(&mutated[off..off + n]);
    off += n;
    if !matches!(side.eng.phase, ZmtpPhase::Greeting | ZmtpPhase::Closed) {
      reached_after_greeting = true;
    }
    if let Some(b) = bound {
      if side.eng.buffer_len() > b + n {
        return Err(
          Violation::new("unbounded_buffer", format!("MAXMSGSIZE {:?}: engine holds {} bytes after a chunk of {} (bound {} + chunk)", c.maxmsgsize, side.eng.buffer_len(), n, b))
            .with("layer", "engine"),
        );
      }
    }
  }
  let extreme = c.muts.iter().any(|m| matches!(m, Mutator::Len { .. } | Mutator::MoreRun { .. }));
  rec.nontrivial = reached_after_greeting || extreme;
  rec.label_if(reached_after_greeting, "past_greeting");
  rec.label_if(side.completed(), "handshake_completed");
  rec.label_if(extreme, "length_extreme_or_more_run");
  rec.label_if(side.errored(), "rejected");
  rec.label_if(c.maxmsgsize.map(|m| m >= 0).unwrap_or(false), "maxmsgsize_set");
  check_terminal(&mut side, "static")?;
  Ok(())
}

// --- (2) live pairs with a man in the middle -----------------------------------------------------------

#[derive(Clone, Debug, Serialize, Deserialize)]
pub struct LiveCase {
  pub mech: Mech,
  /// role of the engine under test
  pub target_is_server: bool,
  pub maxmsgsize: Option<i64>,
  pub msg_sizes: Vec<u32>,
  pub muts: Vec<Mutator>,
  pub chunks: Vec<u16>,
}

fn live_strategy() -> impl Strategy<Value = LiveCase> + Clone {
  (
    prop::sample::select(Mech::ALL.to_vec()),
    any::<bool>(),
    maxmsgsize_strategy(),
    prop::collection::vec(prop_oneof![3 => 0u32..300, 1 => 0u32..5000], 0..5),
    prop::collection::vec(mutator_strategy(), 1..=2),
    prop::collection::vec(prop_oneof![1 => Just(u16::MAX), 2 => 1u16..100], 0..12),
  )
    .prop_map(|(mech, target_is_server, maxmsgsize, msg_sizes, muts, chunks)| LiveCase { mech, target_is_server, maxmsgsize, msg_sizes, muts, chunks })
}

fn live_pair(c: &LiveCase, mitm: Option<Mitm>) -> Result<Pair, Violation> {
  let mut target = EndSpec::new(if c.target_is_server { "PULL" } else { "DEALER" }, c.target_is_server, c.mech);
  let mut peer = EndSpec::new(if c.target_is_server { "PUSH" } else { "DEALER" }, !c.target_is_server, c.mech);
  if !c.target_is_server {
    target.socket_type = "DEALER".into();
  }
  target.plain = Some(("u".into(), "p".into()));
  peer.plain = Some(("u".into(), "p".into()));
  target.key_seed = 41;
  peer.key_seed = 42;
  if c.target_is_server {
    peer.peer_key_seed = Some(41);
    target.peer_key_seed = None;
  } else {
    target.peer_key_seed = Some(42);
    peer.peer_key_seed = None;
  }
  target.maxmsgsize = c.maxmsgsize;
  let a = target.build().map_err(|e| Violation::new("engine_build", e))?;
  let b = peer.build().map_err(|e| Violation::new("engine_build", e))?;
  Ok(Pair::with_mitm(a, b, mitm))
}

fn drive_live(c: &LiveCase, p: &mut Pair, bound: Option<usize>) -> Result<(), Violation> {
  let mut check = |p: &Pair| -> Result<(), Violation> {
    if let Some(b) = bound {
      if p.a.eng.buffer_len() > b + p.last_chunk {
        return Err(
          Violation::new("unbounded_buffer", format!("{} MAXMSGSIZE {:?}: engine holds {} bytes after a chunk of {}", c.mech.name(), c.maxmsgsize, p.a.eng.buffer_len(), p.last_chunk))
            .with("layer", "engine"),
        );
      }
    }
    Ok(())
  };
  let mut i = 0;
  let mut guard = 0;
  // handshake
  while p.in_flight() > 0 && guard < 5000 {
    guard += 1;
    let n = (c.chunks.get(i).copied().unwrap_or(u16::MAX) as usize).max(1);
    i += 1;
    if p.deliver(true, n) {
      check(p)?;
    }
    let nb = p.b.inbox.len();
    p.deliver(false, nb.max(1));
  }
  // data from the peer towards the engine under test
  for (k, sz) in c.msg_sizes.iter().enumerate() {
    let mut fb = rzmq::FrameBatch::new();
    fb.push(rzmq::Msg::from_vec(fill(*sz as usize, k as u64)));
    p.app_send(false, fb);
  }
  p.flush_mitm_tail();
  while p.in_flight() > 0 && guard < 10000 {
    guard += 1;
    let n = (c.chunks.get(i).copied().unwrap_or(u16::MAX) as usize).max(1);
    i += 1;
    if p.deliver(true, n) {
      check(p)?;
    }
    let nb = p.b.inbox.len();
    p.deliver(false, nb.max(1));
  }
  Ok(())
}

fn prop_live(c: &LiveCase, rec: &mut CaseRec) -> Result<(), Violation> {
  // pass 1: honest run to learn the stream towards the target
  let mut honest = live_pair(c, None)?;
  // the honest run must not be limited by MAXMSGSIZE for the aim to be meaningful; it is only
  // used to measure the stream
  drive_live(c, &mut honest, None)?;
  let stream = honest.orig_to_a.clone();
  let ops = to_ops(&c.muts, &stream, 64);
  let mut p = live_pair(c, Some(Mitm::new(ops)))?;
  let encrypted = matches!(c.mech, Mech::Curve | Mech::Noise);
  drive_live(c, &mut p, buffer_bound(c.maxmsgsize, encrypted))?;
  let applied = p.mitm_to_a.as_ref().map(|m| m.applied).unwrap_or(0);
  let past = p.a.completed() || !matches!(p.a.eng.phase, ZmtpPhase::Greeting | ZmtpPhase::Closed) || p.a.apps.len() > 0;
  rec.nontrivial = applied > 0 && past;
  rec.label(c.mech.name());
  rec.label_if(p.a.completed(), "handshake_completed");
  rec.label_if(p.a.errored(), "rejected");
  rec.label_if(applied > 0, "mutation_applied");
  check_terminal(&mut p.a, "live")?;
  Ok(())
}

// --- (3) stand-alone parsers --------------------------------------------------------------------------

#[derive(Clone, Debug, Serialize, Deserialize)]
pub enum ParserInput {
  /// frame header with an extreme length, `body` bytes following
  Header { flags: u8, which: u8, long: bool, body: u16 },
  Random { len: u16, seed: u16 },
  Greeting { seed: u16, flips: Vec<(u8, u8)> },
  ReadyProps { seed: u16, len: u8, name_len: u8, value_len: u32 },
}

#[derive(Clone, Debug, Serialize, Deserialize)]
pub struct ParserCase {
  pub input: ParserInput,
  pub maxmsgsize: Option<i64>,
}

fn parser_strategy() -> impl Strategy<Value = ParserCase> + Clone {
  let input = prop_oneof![
    4 => (any::<u8>(), 0u8..12, any::<bool>(), 0u16..300).prop_map(|(flags, which, long, body)| ParserInput::Header { flags, which, long, body }),
    2 => (0u16..400, any::<u16>()).prop_map(|(len, seed)| ParserInput::Random { len, seed }),
    2 => (any::<u16>(), prop::collection::vec((0u8..64, 0u8..8), 0..3)).prop_map(|(seed, flips)| ParserInput::Greeting { seed, flips }),
    2 => (any::<u16>(), 0u8..60, any::<u8>(), prop_oneof![0u32..40, Just(u32::MAX), Just(1u32 << 31)]).prop_map(|(seed, len, name_len, value_len)| ParserInput::ReadyProps { seed, len, name_len, value_len }),
  ];
  (input, maxmsgsize_strategy()).prop_map(|(input, maxmsgsize)| ParserCase { input, maxmsgsize })
}

fn parser_bytes(i: &ParserInput) -> Vec<u8> {
  match i {
    ParserInput::Header { flags, which, long, body } => {
      let v = LEN_EXTREMES[*which as usize % LEN_EXTREMES.len()];
      let mut out = Vec::new();
      if *long || v > 255 {
        out.push(flags | wire::FLAG_LONG);
        out.extend_from_slice(&v.to_be_bytes());
      } else {
        out.push(flags & !wire::FLAG_LONG);
        out.push(v as u8);
      }
      out.extend(fill(*body as usize, 9));
      out
    }
    ParserInput::Random { len, seed } => fill(*len as usize, *seed as u64),
    ParserInput::Greeting { seed, flips } => {
      let mechs = ["NULL", "PLAIN", "CURVE", "NOISE_XX", "X"];
      let mut g = wire::greeting_v3((*seed % 3) as u8, mechs[*seed as usize % mechs.len()], seed & 8 != 0);
      for (p, b) in flips {
        g[*p as usize % 64] ^= 1 << (b % 8);
      }
      g
    }
    ParserInput::ReadyProps { seed, len, name_len, value_len } => {
      let mut b = vec![*name_len];
      b.extend(fill(*len as usize, *seed as u64));
      b.extend_from_slice(&value_len.to_be_bytes());
      b.extend(fill((*seed % 30) as usize, 3));
      b
    }
  }
}

fn prop_parsers(c: &ParserCase, rec: &mut CaseRec) -> Result<(), Violation> {
  let bytes = parser_bytes(&c.input);
  let max = c.maxmsgsize.unwrap_or(-1);
  let p = ZmtpManualParser::new(max);
  rec.nontrivial = matches!(c.input, ParserInput::Header { .. } | ParserInput::ReadyProps { .. }) || bytes.len() > 9;
  rec.label(match c.input {
    ParserInput::Header { .. } => "header_extreme",
    ParserInput::Random { .. } => "random",
    ParserInput::Greeting { .. } => "greeting",
    ParserInput::ReadyProps { .. } => "ready_props",
  });
  // None of these may panic (the runner converts a panic into a violation with its location).
  let a = p.decode_frame_from_slice(&bytes);
  let b = p.decode_frame_from_bytes(&Bytes::copy_from_slice(&bytes));
  let k = p.peek_frame_len(&bytes);
  let mut pb = ZmtpManualParser::new(max);
  let mut acc = BytesMut::from(&bytes[..]);
  let d = pb.decode_from_buffer(&mut acc);
  let _ = rzmq::protocol::zmtp::ZmtpGreeting::decode(&mut BytesMut::from(&bytes[..]));
  let _ = rzmq::protocol::zmtp::ZmtpReady::parse_properties(&bytes);
  {
    use tokio_util::codec::Decoder;
    let mut codec = rzmq::protocol::zmtp::ZmtpCodec::new();
    let mut acc2 = BytesMut::from(&bytes[..]);
    let _ = codec.decode(&mut acc2);
  }
  // Differential against the reference decoder where the limit does not interfere.
  if let RefDecode::Frame(f, n) = wire::decode_frame(&bytes) {
    let within = max < 0 || (f.body.len() as i64) <= max;
    let got = |r: &Result<Option<(rzmq::Msg, usize)>, rzmq::ZmqError>| -> Option<(usize, usize)> { r.as_ref().ok().and_then(|o| o.as_ref().map(|(m, n)| (m.size(), *n))) };
    if within {
      if got(&a) != Some((f.body.len(), n)) || got(&b) != Some((f.body.len(), n)) {
        return Err(Violation::new("parser_disagrees", format!("reference decodes a frame of {} bytes ({} on the wire); slice {:?} bytes {:?}", f.body.len(), n, got(&a), got(&b))));
      }
      if !matches!(k, Ok(Some(x)) if x == n) {
        return Err(Violation::new("parser_disagrees", format!("peek_frame_len {:?} vs reference {}", k.as_ref().ok(), n)));
      }
      if !matches!(&d, Ok(Some(m)) if m.size() == f.body.len()) {
        return Err(Violation::new("parser_disagrees", "decode_from_buffer did not return the frame the reference sees".to_string()));
      }
    } else if a.is_ok() || b.is_ok() || k.is_ok() || d.is_ok() {
      return Err(
        Violation::new("limit_not_enforced", format!("frame of {} bytes accepted with MAXMSGSIZE {} (slice {} bytes {} peek {} buffer {})", f.body.len(), max, a.is_ok(), b.is_ok(), k.is_ok(), d.is_ok()))
          .with("layer", "parser"),
      );
    }
  }
  Ok(())
}

// --- (4) MAXMSGSIZE boundary at engine level --------------------------------------------------------------

#[derive(Clone, Debug, Serialize, Deserialize)]
pub struct LimitCase {
  pub limit: u32,
  pub delta: i8,
  pub proto: Proto,
  pub chunks: Vec<u16>,
  pub header_only: bool,
}

fn limit_strategy() -> impl Strategy<Value = LimitCase> + Clone {
  (
    prop_oneof![1 => prop::sample::select(vec![0u32, 1]), 4 => prop::sample::select(vec![64u32, 254, 255, 256, 4096, 65535, 65536]), 2 => 64u32..100_000],
    prop_oneof![2 => Just(0i8), 2 => Just(1i8), 1 => Just(-1i8), 1 => 2i8..60],
    prop::sample::select(vec![Proto::V3Null, Proto::V3Plain, Proto::V2]),
    prop::collection::vec(prop_oneof![1 => Just(u16::MAX), 2 => 1u16..3000], 0..8),
    any::<bool>(),
  )
    .prop_map(|(limit, delta, proto, chunks, header_only)| LimitCase { limit, delta, proto, chunks, header_only })
}

fn prop_limit(c: &LimitCase, rec: &mut CaseRec) -> Result<(), Violation> {
  let size = (c.limit as i64 + c.delta as i64).max(0) as usize;
  let over = size as i64 > c.limit as i64;
  let t = Transcript { proto: c.proto.clone(), local_server: true, local_type: "PULL".into(), peer_type: "PUSH".into(), peer_identity: vec![], msgs: vec![] };
  let (hs, _) = t.bytes();
  let mut stream = hs;
  let mut frame = Vec::new();
  wire::encode_frame(&RefFrame::data(fill(size, 77), false), &mut frame);
  if c.header_only && over {
    frame.truncate(if size <= 255 { 2 } else { 9 });
  }
  stream.extend_from_slice(&frame);
  let mut spec = t.local_spec();
  spec.maxmsgsize = Some(c.limit as i64);
  let mut side = Side::new(spec.build().map_err(|e| Violation::new("engine_build", e))?);
  side.start();
  let mut off = 0;
  let mut i = 0;
  while off < stream.len() && side.open {
    let n = (c.chunks.get(i).copied().unwrap_or(u16::MAX) as usize).max(1).min(stream.len() - off);
    i += 1;
    side.feed(&stream[off..off + n]);
    off += n;
    let b = (c.limit as usize + 9).max(64);
    if side.eng.buffer_len() > b + n {
      return Err(Violation::new("unbounded_buffer", format!("limit {}: {} bytes held after a chunk of {}", c.limit, side.eng.buffer_len(), n)).with("layer", "engine"));
    }
  }
  rec.nontrivial = c.delta == 0 || c.delta == 1;
  rec.label(if over { "over_limit" } else { "within_limit" });
  rec.label_if(size > 255, "long_header");
  if !side.completed() {
    // MAXMSGSIZE below the size of the handshake's own command frames (READY is 26+ bytes):
    // rzmq applies the limit to every frame, so no handshake can complete and the data-frame
    // boundary cannot be observed. Not a statement of this property either way: skipped, counted.
    if c.limit < 64 {
      rec.nontrivial = false;
      rec.label("limit_below_handshake_frames_(skipped)");
      return Ok(());
    }
    return Err(Violation::new("limit_harness", format!("handshake did not complete: {:?}", side.apps)));
  }
  let delivered = side.delivered();
  if over {
    // With only the header on the wire an implementation may also keep waiting; refusing is
    // required once the body is there, delivering is never allowed.
    let must_error = !c.header_only;
    if !delivered.is_empty() || (must_error && !side.errored()) {
      return Err(
        Violation::new("limit_not_enforced", format!("MAXMSGSIZE {}: frame of {} bytes: delivered={} errored={}", c.limit, size, delivered.len(), side.errored()))
          .with("layer", "engine"),
      );
    }
  } else if delivered.len() != 1 || delivered[0][0].body.len() != size || side.errored() {
    return Err(
      Violation::new("limit_rejects_allowed_frame", format!("MAXMSGSIZE {}: frame of {} bytes: delivered={} errored={}", c.limit, size, delivered.len(), side.errored()))
        .with("layer", "engine"),
    );
  }
  Ok(())
}

pub fn run(run: &mut Run) {
  run.level = "fault_enumeration";
  run.rule = "L1: (static) honest v3-NULL / v3-PLAIN / v2 transcripts, both roles, 0..5 data messages, mutated by 1..3 mutators (bit flip, set byte, insert, delete, truncate, length field := {0,255,256,2^31,2^32+5,2^63,2^64-9..2^64-1} in short/long form, duplicate/drop/swap frame, 254..400 MORE frames, READY with invalid UTF-8 name / value length beyond the body, random tail) x MAXMSGSIZE in {unset,-1,0,1,255,256,4096,1MiB,random} x random segmentation; (live) engine pairs of NULL/PLAIN/CURVE/NOISE_XX with a man in the middle applying the same mutators to the stream towards the engine under test (positions aimed with a prior honest run), followed by data; (parsers) the stand-alone decoders, greeting and READY parsers on extreme headers / random / flipped greetings; (limit) a frame of limit-1, limit, limit+1.. in short and long form after each handshake type. L2: raw peers against real sockets (c07_l2). Non-trivial = the mutated stream got past the greeting (or carries a length extreme / MORE run); live: a mutation was applied and the engine got past the greeting; limit: delta in {0,+1}. Distinct = hash of the case".into();
  run.assumptions = vec![
    "buffer bound is checked on the engine's network accumulator (ZmtpEngine::buffer_len); for CURVE/NOISE sessions the record layer's own 64 KiB record is allowed on top of MAXMSGSIZE".into(),
    "harness build has overflow-checks and debug-assertions on, so arithmetic overflow surfaces as a panic".into(),
  ];
  let (n_static, n_live, n_parsers, n_limit) = match run.tier {
    Tier::Quick => (30_000, 6_000, 30_000, 4_000),
    Tier::Thorough => (1_000_000, 150_000, 1_000_000, 100_000),
  };
  run.prop("static_mutation", n_static, 16, 800, static_strategy(), prop_static);
  run.prop("live_mitm", n_live, 16, 300, live_strategy(), prop_live);
  run.prop("parsers", n_parsers, 16, 800, parser_strategy(), prop_parsers);
  run.prop("maxmsgsize_boundary", n_limit, 16, 300, limit_strategy(), prop_limit);
  crate::props::c07_l2::run(run);
  // coverage-guided stage: arbitrary peer bytes into a real engine, oracle inside the target
  if run.tier == Tier::Thorough || run.replay_case("fuzz_engine_stream").is_some() {
    crate::fuzzstage::run(run, "engine_stream", 30_000);
  }
}
