//! C09 — dropping a send or recv future is safe at every await point.
//!
//! For each (socket type, operation, condition) scenario the operation is first run to completion
//! while counting how often it returns Pending (k); then the scenario is repeated k times,
//! dropping the future at its n-th Pending for n = 1..k. On a current-thread runtime over inproc
//! with tokio's paused clock the schedule is reproducible, so this enumerates every cancellation
//! point of that scenario. After the drop ordinary traffic continues to a sentinel and the
//! accounting oracle of C01/C02 decides: nothing queued for the application is lost, nothing
//! arrives twice, nothing partial; the cancelled message is absent or whole; the next valid call
//! on a REQ/REP/DEALER/ROUTER socket works. The same scenarios are sampled over tcp on a
//! multi-thread runtime.

use crate::engine::{hash_of, CaseRec, Run, Tier, Violation};
use crate::stack::{self, acc_message, parse_acc, Transport};
use rzmq::socket::options as opt;
use rzmq::{Msg, MsgFlags};
use serde::{Deserialize, Serialize};
use serde_json::json;
use std::future::Future;
use std::pin::Pin;
use std::sync::atomic::{AtomicUsize, Ordering};
use std::sync::Arc;
use std::task::{Context, Poll};
use std::time::Duration;

/// Where the operation's future is dropped.
#[derive(Clone, Copy, Debug, Serialize, Deserialize, PartialEq, Eq, Hash)]
pub enum Cut {
  Never,
  /// right after its n-th Pending
  AtPending(usize),
  /// after its n-th wake-up, without polling it again (the state other tasks left it in)
  AtWake(usize),
  /// at this many milliseconds after the operation started (virtual time on the paused runtime)
  AtTime(u64),
}

struct WakeFlag {
  woken: Arc<AtomicUsize>,
  outer: parking_lot::Mutex<Option<std::task::Waker>>,
}

impl std::task::Wake for WakeFlag {
  fn wake(self: Arc<Self>) {
    self.wake_by_ref()
  }
  fn wake_by_ref(self: &Arc<Self>) {
    self.woken.fetch_add(1, Ordering::SeqCst);
    if let Some(w) = self.outer.lock().as_ref() {
      w.wake_by_ref();
    }
  }
}

/// Polls `fut` and drops it at the chosen point; resolves to None when it was dropped.
struct CancelAfter<F: Future> {
  fut: Option<Pin<Box<F>>>,
  cut: Cut,
  pendings: Arc<AtomicUsize>,
  flag: Arc<WakeFlag>,
  wakes_seen: usize,
}

impl<F: Future> Future for CancelAfter<F> {
  type Output = Option<F::Output>;
  fn poll(mut self: Pin<&mut Self>, cx: &mut Context<'_>) -> Poll<Self::Output> {
    let this = &mut *self;
    if this.fut.is_none() {
      return Poll::Ready(None);
    }
    *this.flag.outer.lock() = Some(cx.waker().clone());
    let woken = this.flag.woken.load(Ordering::SeqCst);
    if woken > this.wakes_seen {
      this.wakes_seen = woken;
      if let Cut::AtWake(n) = this.cut {
        if this.pendings.load(Ordering::SeqCst) >= 1 && woken >= n {
          this.fut = None; // woken, not polled again, dropped
          return Poll::Ready(None);
        }
      }
    }
    let inner_waker = std::task::Waker::from(this.flag.clone());
    let mut icx = Context::from_waker(&inner_waker);
    match this.fut.as_mut().unwrap().as_mut().poll(&mut icx) {
      Poll::Ready(v) => {
        this.fut = None;
        Poll::Ready(Some(v))
      }
      Poll::Pending => {
        let p = this.pendings.fetch_add(1, Ordering::SeqCst) + 1;
        if matches!(this.cut, Cut::AtPending(n) if p >= n) {
          this.fut = None; // drop the operation's future here
          Poll::Ready(None)
        } else {
          Poll::Pending
        }
      }
    }
  }
}

async fn cancel_after<F: Future>(fut: F, cut: Cut, pendings: Arc<AtomicUsize>, wakes: Arc<AtomicUsize>) -> Option<F::Output> {
  let flag = Arc::new(WakeFlag { woken: wakes, outer: parking_lot::Mutex::new(None) });
  let w = CancelAfter { fut: Some(Box::pin(fut)), cut, pendings, flag, wakes_seen: 0 };
  match cut {
    Cut::AtTime(ms) => tokio::select! {
      biased;
      r = w => r,
      _ = tokio::time::sleep(Duration::from_millis(ms)) => None,
    },
    _ => w.await,
  }
}

#[derive(Clone, Copy, Debug, Serialize, Deserialize, PartialEq, Eq, Hash)]
pub enum Scenario {
  /// send() with no peer connected yet; the peer connects later
  PushSendNoPeer,
  DealerSendNoPeer,
  ReqSendNoPeer,
  /// send() / send_multipart() while the peer's queue is full; the peer starts reading later
  PushSendPeerFull,
  DealerMultipartPeerFull,
  RouterMultipartPeerFull,
  /// REQ send() blocked on a full pipe (the REP never reads; earlier requests were given up on
  /// after RCVTIMEO, lazy-pirate style)
  ReqSendPeerFull,
  /// recv() parked on an empty queue; a message arrives later
  PullRecvArrival,
  SubRecvArrival,
  DealerRecvMultipartArrival,
  RouterRecvArrival,
  RepRecvArrival,
  ReqRecvArrival,
  /// recv() of the first frame of a 3-frame message, then a cancelled recv() of the second
  PullRecvMidMessage,
  /// ROUTER message sent frame by frame with send(); the send of frame j (0 = identity) is the
  /// operation, the peer's queue is full and drains slowly
  RouterFragmented(u8),
  /// DEALER message sent frame by frame; the send of the last frame is the operation while
  /// another task waits in send_multipart() for the transaction to finish
  DealerFragmentedContended,
}

const ALL: [Scenario; 19] = [
  Scenario::PushSendNoPeer,
  Scenario::DealerSendNoPeer,
  Scenario::ReqSendNoPeer,
  Scenario::PushSendPeerFull,
  Scenario::DealerMultipartPeerFull,
  Scenario::RouterMultipartPeerFull,
  Scenario::ReqSendPeerFull,
  Scenario::PullRecvArrival,
  Scenario::SubRecvArrival,
  Scenario::DealerRecvMultipartArrival,
  Scenario::RouterRecvArrival,
  Scenario::RepRecvArrival,
  Scenario::ReqRecvArrival,
  Scenario::PullRecvMidMessage,
  Scenario::RouterFragmented(0),
  Scenario::RouterFragmented(1),
  Scenario::RouterFragmented(2),
  Scenario::RouterFragmented(3),
  Scenario::DealerFragmentedContended,
];

#[derive(Debug)]
struct Outcome {
  /// Pending count of the operation under test
  pendings: usize,
  wakes: usize,
  /// Some(..) if the operation completed before being cancelled
  completed: bool,
  violation: Option<Violation>,
  inconclusive: Option<String>,
}

fn viol(sc: Scenario, n: Cut, check: &str, d: String) -> Violation {
  Violation::new(check, format!("{:?} dropped {:?}: {}", sc, n, d)).with("scenario", format!("{:?}", sc)).with("layer", "stack")
}

/// Reads accounting messages until the sentinel; returns (sender, seq, frames) per message.
async fn read_to_sentinel(sock: &rzmq::Socket, skip_identity: bool) -> Result<Vec<(u16, u32, usize)>, String> {
  let mut out = Vec::new();
  loop {
    match sock.recv_multipart().await {
      Ok(frames) => {
        let bodies: Vec<Vec<u8>> = frames.iter().skip(if skip_identity { 1 } else { 0 }).map(|m| m.data().unwrap_or(&[]).to_vec()).collect();
        if bodies.is_empty() {
          return Err("empty message".into());
        }
        let mut first = None;
        for (i, b) in bodies.iter().enumerate() {
          let a = parse_acc(b).map_err(|e| format!("frame {} of a {}-frame message: {}", i, bodies.len(), e))?;
          if a.frame_idx as usize != i || a.frame_cnt as usize != bodies.len() {
            return Err(format!("partial or glued message: frame {} carries {}/{} in a delivery of {} frames", i, a.frame_idx, a.frame_cnt, bodies.len()));
          }
          if first.is_none() {
            first = Some((a.sender, a.msg_seq));
          }
        }
        let (s, q) = first.unwrap();
        if q == stack::SENTINEL_SEQ {
          return Ok(out);
        }
        out.push((s, q, bodies.len()));
      }
      Err(e) => return Err(format!("HANG sentinel not received: {}", e)),
    }
  }
}

fn msg(seq: u32, frames: usize) -> Vec<Msg> {
  acc_message(1, seq, &vec![40; frames])
}

fn with_id(mut v: Vec<Msg>) -> Vec<Msg> {
  let mut id = Msg::from_static(b"peer");
  id.set_flags(MsgFlags::MORE);
  v.insert(0, id);
  v
}

/// Runs one scenario, cancelling the operation under test at its n-th Pending (usize::MAX = never).
async fn run_scenario(sc: Scenario, tr: Transport, n: Cut) -> Outcome {
  let pend = Arc::new(AtomicUsize::new(0));
  let wakes = Arc::new(AtomicUsize::new(0));
  let mut out = Outcome { wakes: 0, pendings: 0, completed: false, violation: None, inconclusive: None };
  macro_rules! bail {
    ($e:expr) => {{
      out.inconclusive = Some($e);
      out.pendings = pend.load(Ordering::SeqCst);
      return out;
    }};
  }
  let ctx = match rzmq::Context::new() {
    Ok(c) => c,
    Err(e) => bail!(e.to_string()),
  };
  let settle = Duration::from_millis(if tr == Transport::Inproc { 30 } else { 200 });
  let ro = vec![stack::i32opt(opt::RCVTIMEO, 3000), stack::i32opt(opt::SNDTIMEO, 3000)];
  match sc {
    // ------------------------------------------------------------------ send, no peer yet
    Scenario::PushSendNoPeer | Scenario::DealerSendNoPeer | Scenario::ReqSendNoPeer => {
      let (sty, rty) = match sc {
        Scenario::PushSendNoPeer => ("PUSH", "PULL"),
        Scenario::DealerSendNoPeer => ("DEALER", "DEALER"),
        _ => ("REQ", "REP"),
      };
      // the sender binds (so that the receiver can connect later)
      let (sender, ep) = match stack::bound(&ctx, sty, if rty == "DEALER" && tr == Transport::Inproc { Transport::Ipc } else { tr }, &[stack::i32opt(opt::SNDTIMEO, -1), stack::i32opt(opt::RCVTIMEO, 3000)]).await {
        Ok(x) => x,
        Err(e) => bail!(e),
      };
      let ctx2 = ctx.clone();
      let ep2 = ep.clone();
      let ro2 = ro.clone();
      let joiner = tokio::spawn(async move {
        tokio::time::sleep(Duration::from_millis(300)).await;
        stack::connected(&ctx2, rty, &ep2, &ro2).await
      });
      let s2 = sender.clone();
      let op = async move {
        if sty == "REQ" {
          s2.send(msg(0, 1).remove(0)).await
        } else {
          s2.send_multipart(msg(0, 1)).await
        }
      };
      let r = cancel_after(op, n, pend.clone(), wakes.clone()).await;
      out.completed = r.is_some();
      let receiver = match joiner.await {
        Ok(Ok(s)) => s,
        _ => bail!("peer could not connect".into()),
      };
      tokio::time::sleep(settle).await;
      if sty == "REQ" {
        // the next valid call must work: if the cancelled send went out, a recv; otherwise a send
        let delivered = matches!(tokio::time::timeout(Duration::from_millis(300), receiver.recv()).await, Ok(Ok(_)));
        if delivered {
          let _ = receiver.send(Msg::from_static(b"r")).await;
          if r.is_none() {
            // cancelled but delivered whole: the socket may be in either state; both calls must not hang
          }
          let _ = tokio::time::timeout(Duration::from_millis(500), sender.recv()).await;
        }
        match sender.send(msg(1, 1).remove(0)).await {
          Ok(()) => {}
          Err(e) => out.violation = Some(viol(sc, n, "socket_stuck", format!("the next send() on the REQ failed: {}", e))),
        }
      } else {
        for k in 1..4 {
          if let Err(e) = sender.send_multipart(msg(k, 1)).await {
            out.violation = Some(viol(sc, n, "socket_stuck", format!("follow-up send {} failed: {}", k, e)));
          }
        }
        let _ = sender.send_multipart(msg(stack::SENTINEL_SEQ, 1)).await;
        match read_to_sentinel(&receiver, false).await {
          Ok(got) => {
            let seqs: Vec<u32> = got.iter().map(|g| g.1).collect();
            let want_a = vec![1, 2, 3];
            let want_b = vec![0, 1, 2, 3];
            let ok = if r.is_some() { seqs == want_b } else { seqs == want_a || seqs == want_b };
            if !ok && out.violation.is_none() {
              out.violation = Some(viol(sc, n, "loss_dup_or_partial", format!("received {:?} (operation completed: {})", seqs, r.is_some())));
            }
          }
          Err(e) if e.starts_with("HANG") => out.inconclusive = Some(e),
          Err(e) => out.violation = Some(viol(sc, n, "loss_dup_or_partial", e)),
        }
      }
      let _ = receiver.close().await;
      let _ = sender.close().await;
    }
    // ------------------------------------------------------------------ send, peer full
    Scenario::PushSendPeerFull | Scenario::DealerMultipartPeerFull | Scenario::RouterMultipartPeerFull => {
      let (sty, rty, frames) = match sc {
        Scenario::PushSendPeerFull => ("PUSH", "PULL", 1),
        Scenario::DealerMultipartPeerFull => ("DEALER", "DEALER", 3),
        _ => ("ROUTER", "DEALER", 3),
      };
      let tr2 = if sty == "DEALER" && tr == Transport::Inproc { Transport::Ipc } else { tr };
      let mut ropts = vec![stack::i32opt(opt::RCVHWM, 1), stack::i32opt(opt::RCVTIMEO, 3000), stack::i32opt(opt::RCVBUF, 8192)];
      if sty == "ROUTER" {
        ropts.push((opt::ROUTING_ID, b"peer".to_vec()));
      }
      let (receiver, ep) = match stack::bound(&ctx, rty, tr2, &ropts).await {
        Ok(x) => x,
        Err(e) => bail!(e),
      };
      let sender = match stack::connected(&ctx, sty, &ep, &[stack::i32opt(opt::SNDHWM, 1), stack::i32opt(opt::SNDTIMEO, -1), stack::i32opt(opt::SNDBUF, 8192)]).await {
        Ok(s) => s,
        Err(e) => bail!(e),
      };
      if sty == "ROUTER" {
        let _ = sender.set_option_raw(opt::ROUTER_MANDATORY, &1i32.to_ne_bytes()).await;
      }
      tokio::time::sleep(settle).await;
      let big = if tr2 == Transport::Inproc { 64 } else { 64 * 1024 };
      let mk = |seq: u32| {
        let m = acc_message(1, seq, &vec![big; frames]);
        if sty == "ROUTER" {
          with_id(m)
        } else {
          m
        }
      };
      // fill until a send does not complete at once
      let mut seq = 0u32;
      loop {
        match tokio::time::timeout(Duration::from_millis(150), sender.send_multipart(mk(seq))).await {
          Ok(Ok(())) => {
            seq += 1;
            if seq > 3000 {
              bail!("queue never filled".into());
            }
          }
          Ok(Err(e)) => bail!(format!("fill failed: {}", e)),
          Err(_) => break, // this send blocked (and was dropped by the timeout: it may or may not have been enqueued)
        }
      }
      let maybe = seq; // the fill's last message: absent or whole
      seq += 1;
      // the reader starts later
      let rcv = receiver.clone();
      let skip = false;
      let reader = tokio::spawn(async move {
        tokio::time::sleep(Duration::from_millis(400)).await;
        read_to_sentinel(&rcv, skip).await
      });
      let cancelled_seq = seq;
      let s2 = sender.clone();
      let m = mk(cancelled_seq);
      let r = cancel_after(async move { s2.send_multipart(m).await }, n, pend.clone(), wakes.clone()).await;
      out.completed = r.is_some();
      seq += 1;
      let mut follow = Vec::new();
      for _ in 0..3 {
        match sender.send_multipart(mk(seq)).await {
          Ok(()) => follow.push(seq),
          Err(e) => out.violation = Some(viol(sc, n, "socket_stuck", format!("follow-up send failed: {}", e))),
        }
        seq += 1;
      }
      let mut s = acc_message(1, stack::SENTINEL_SEQ, &vec![32; frames]);
      if sty == "ROUTER" {
        s = with_id(s);
      }
      let _ = sender.send_multipart(s).await;
      match tokio::time::timeout(Duration::from_secs(20), reader).await {
        Ok(Ok(Ok(got))) => {
          let seqs: Vec<u32> = got.iter().map(|g| g.1).collect();
          // expected: 0..maybe-1, [maybe]?, [cancelled]? (must be there if it completed), follow-ups
          let mut i = 0usize;
          let mut ok = true;
          for want in 0..maybe {
            if seqs.get(i) != Some(&want) {
              ok = false;
            }
            i += 1;
          }
          if seqs.get(i) == Some(&maybe) {
            i += 1;
          }
          if seqs.get(i) == Some(&cancelled_seq) {
            i += 1;
          } else if r.is_some() {
            ok = false;
          }
          for f in &follow {
            if seqs.get(i) != Some(f) {
              ok = false;
            }
            i += 1;
          }
          if i != seqs.len() {
            ok = false;
          }
          if !ok && out.violation.is_none() {
            out.violation = Some(viol(sc, n, "loss_dup_or_partial", format!("received {:?}; accepted 0..{}, maybe {}, operation {} (completed: {}), follow-ups {:?}", seqs, maybe, maybe, cancelled_seq, r.is_some(), follow)));
          }
        }
        Ok(Ok(Err(e))) if e.starts_with("HANG") => out.inconclusive = Some(e),
        Ok(Ok(Err(e))) => out.violation = Some(viol(sc, n, "loss_dup_or_partial", e)),
        _ => out.inconclusive = Some("reader did not finish".into()),
      }
      let _ = receiver.close().await;
      let _ = sender.close().await;
    }
    // ------------------------------------------------------------------ REQ send, pipe full
    Scenario::ReqSendPeerFull => {
      let (rep, ep) = match stack::bound(&ctx, "REP", tr, &[stack::i32opt(opt::RCVHWM, 1), stack::i32opt(opt::RCVBUF, 8192)]).await {
        Ok(x) => x,
        Err(e) => bail!(e),
      };
      let req = match stack::connected(&ctx, "REQ", &ep, &[stack::i32opt(opt::SNDHWM, 1), stack::i32opt(opt::SNDTIMEO, -1), stack::i32opt(opt::RCVTIMEO, 30), stack::i32opt(opt::SNDBUF, 8192)]).await {
        Ok(s) => s,
        Err(e) => bail!(e),
      };
      tokio::time::sleep(settle).await;
      let big = if tr == Transport::Inproc { 64 } else { 128 * 1024 };
      // requests nobody answers: send, give up after RCVTIMEO, send again ... until a send blocks
      let mut k = 0u32;
      let mut blocked = false;
      while k < 600 {
        match tokio::time::timeout(Duration::from_millis(150), req.send(acc_message(1, k, &[big]).remove(0))).await {
          Ok(Ok(())) => {
            k += 1;
            let _ = req.recv().await; // times out after 30 ms; the socket goes back to sending (known finding of C10)
          }
          Ok(Err(e)) => bail!(format!("fill: send failed: {}", e)),
          Err(_) => {
            blocked = true; // this blocked send() was dropped by the timeout: a first cancellation
            break;
          }
        }
      }
      if !blocked {
        bail!("the REQ's pipe never filled".into());
      }
      let r2 = req.clone();
      let m = acc_message(1, 9000, &[big]).remove(0);
      let r = cancel_after(async move { r2.send(m).await }, n, pend.clone(), wakes.clone()).await;
      out.completed = r.is_some();
      if let Some(Err(e)) = &r {
        if stack::err_kind(e) == "invalid_state" {
          out.violation = Some(viol(sc, n, "socket_stuck", format!("after a send() that blocked on a full pipe was dropped, the next send() is rejected: {}", e)));
        }
      }
      if matches!(r, Some(Ok(()))) {
        // it went through after all: the reply never comes, give up on it as before
        let _ = req.recv().await;
      }
      if out.violation.is_none() {
        match tokio::time::timeout(Duration::from_millis(200), req.send(acc_message(1, 9001, &[big]).remove(0))).await {
          Ok(Err(e)) if stack::err_kind(&e) == "invalid_state" => {
            out.violation = Some(viol(sc, n, "socket_stuck", format!("after a send() that blocked on a full pipe was dropped, the next send() is rejected: {}", e)));
          }
          _ => {}
        }
      }
      let _ = rep.close().await;
      let _ = req.close().await;
    }
    // ------------------------------------------------------------------ frame-by-frame send
    Scenario::RouterFragmented(_) | Scenario::DealerFragmentedContended => {
      let router = matches!(sc, Scenario::RouterFragmented(_));
      let sty = if router { "ROUTER" } else { "DEALER" };
      let tr2 = if !router && tr == Transport::Inproc { Transport::Ipc } else { tr };
      let ropts = vec![stack::i32opt(opt::RCVHWM, 1), stack::i32opt(opt::RCVTIMEO, 5000), stack::i32opt(opt::RCVBUF, 8192), (opt::ROUTING_ID, b"peer".to_vec())];
      let (receiver, ep) = match stack::bound(&ctx, "DEALER", tr2, &ropts).await {
        Ok(x) => x,
        Err(e) => bail!(e),
      };
      let sender = match stack::connected(&ctx, sty, &ep, &[stack::i32opt(opt::SNDHWM, 1), stack::i32opt(opt::SNDTIMEO, -1), stack::i32opt(opt::SNDBUF, 8192)]).await {
        Ok(s) => s,
        Err(e) => bail!(e),
      };
      if router {
        let _ = sender.set_option_raw(opt::ROUTER_MANDATORY, &1i32.to_ne_bytes()).await;
      }
      tokio::time::sleep(settle).await;
      let big = if tr2 == Transport::Inproc { 64 } else { 64 * 1024 };
      let mk = |seq: u32| {
        let m = acc_message(1, seq, &vec![big; 3]);
        if router {
          with_id(m)
        } else {
          m
        }
      };
      let mut seq = 0u32;
      loop {
        match tokio::time::timeout(Duration::from_millis(150), sender.send_multipart(mk(seq))).await {
          Ok(Ok(())) => {
            seq += 1;
            if seq > 3000 {
              bail!("queue never filled".into());
            }
          }
          Ok(Err(e)) => bail!(format!("fill failed: {}", e)),
          Err(_) => break,
        }
      }
      let maybe = seq;
      seq += 1;
      // slow, tolerant reader: one message every 20 ms, from 400 ms on
      let rcv = receiver.clone();
      let reader = tokio::spawn(async move {
        tokio::time::sleep(Duration::from_millis(400)).await;
        let mut got: Vec<Result<(u32, usize), String>> = Vec::new();
        loop {
          match rcv.recv_multipart().await {
            Ok(frames) => {
              let bodies: Vec<Vec<u8>> = frames.iter().map(|m| m.data().unwrap_or(&[]).to_vec()).collect();
              let mut verdict: Result<(u32, usize), String> = Err("empty message".into());
              for (i, b) in bodies.iter().enumerate() {
                match parse_acc(b) {
                  Ok(a) if a.frame_idx as usize == i && a.frame_cnt as usize == bodies.len() => {
                    if i == 0 {
                      verdict = Ok((a.msg_seq, bodies.len()));
                    }
                  }
                  Ok(a) => {
                    verdict = Err(format!("partial or glued message: position {} of a {}-frame delivery carries frame {}/{} of message {}", i, bodies.len(), a.frame_idx, a.frame_cnt, a.msg_seq));
                    break;
                  }
                  Err(e) => {
                    verdict = Err(format!("position {} of a {}-frame delivery ({} bytes): {}", i, bodies.len(), b.len(), e));
                    break;
                  }
                }
              }
              if matches!(verdict, Ok((q, _)) if q == stack::SENTINEL_SEQ) {
                return (got, true);
              }
              got.push(verdict);
            }
            Err(_) => return (got, false),
          }
          tokio::time::sleep(Duration::from_millis(20)).await;
        }
      });
      let x_seq = seq;
      seq += 1;
      let mut xframes = mk(x_seq);
      let last = xframes.len() - 1;
      for (i, f) in xframes.iter_mut().enumerate() {
        if i < last {
          f.set_flags(MsgFlags::MORE);
        }
      }
      let j = match sc {
        Scenario::RouterFragmented(j) => (j as usize).min(last),
        _ => last,
      };
      let mut xs = xframes.into_iter();
      for _ in 0..j {
        match tokio::time::timeout(Duration::from_secs(30), sender.send(xs.next().unwrap())).await {
          Ok(Ok(())) => {}
          Ok(Err(e)) => bail!(format!("frame send failed before the operation under test: {}", e)),
          Err(_) => bail!("frame send before the operation under test did not finish".into()),
        }
      }
      // DEALER: a second task wants to send a whole message meanwhile
      let contender = if !router {
        let s3 = sender.clone();
        let y = mk(900);
        let h = tokio::spawn(async move { s3.send_multipart(y).await });
        tokio::time::sleep(Duration::from_millis(5)).await;
        Some(h)
      } else {
        None
      };
      let s2 = sender.clone();
      let fj = xs.next().unwrap();
      let fj_again = fj.clone();
      let r = cancel_after(async move { s2.send(fj).await }, n, pend.clone(), wakes.clone()).await;
      out.completed = r.is_some();
      let mut x_complete = matches!(r, Some(Ok(()))) && j == last;
      // What the application does next. A dropped send of the identity frame (ROUTER, j = 0) or
      // of a DEALER's last frame abandons the message: the socket has to accept whole messages
      // again. A dropped send of a later ROUTER frame is retried and the message finished, which
      // is the next valid call while a frame-by-frame message is open.
      let finish: Vec<Msg> = match (&r, router && j >= 1) {
        (Some(Ok(())), _) if j < last => xs.collect(),
        (None, true) => std::iter::once(fj_again).chain(xs).collect(),
        _ => vec![],
      };
      if !finish.is_empty() {
        x_complete = true;
        for f in finish {
          match tokio::time::timeout(Duration::from_secs(60), sender.send(f)).await {
            Ok(Ok(())) => {}
            Ok(Err(e)) => {
              x_complete = false;
              if r.is_none() && out.violation.is_none() {
                out.violation = Some(viol(sc, n, "socket_stuck", format!("re-sending the frame whose send() was dropped (or the frames after it) failed: {}", e)));
              }
            }
            Err(_) => {
              x_complete = false;
              if r.is_none() && out.violation.is_none() {
                out.violation = Some(viol(sc, n, "socket_stuck", "re-sending the frame whose send() was dropped did not complete within 60 s although the peer was reading".into()));
              }
            }
          }
        }
      }
      if let Some(h) = contender {
        match tokio::time::timeout(Duration::from_secs(60), h).await {
          Ok(Ok(Ok(()))) => {}
          Ok(Ok(Err(e))) => out.violation = Some(viol(sc, n, "socket_stuck", format!("the send_multipart() that waited for the frame-by-frame message failed: {}", e))),
          _ => out.violation = Some(viol(sc, n, "socket_stuck", "a send_multipart() that waited for the frame-by-frame message to finish never completed after the last frame's send() was dropped".into())),
        }
      }
      // the application moves on to whole messages
      let mut follow = Vec::new();
      for _ in 0..3 {
        match tokio::time::timeout(Duration::from_secs(60), sender.send_multipart(mk(seq))).await {
          Ok(Ok(())) => follow.push(seq),
          Ok(Err(e)) => {
            if out.violation.is_none() {
              out.violation = Some(viol(sc, n, "socket_stuck", format!("send_multipart() after the dropped send() failed: {}", e)));
            }
          }
          Err(_) => {
            if out.violation.is_none() {
              out.violation = Some(viol(sc, n, "socket_stuck", "send_multipart() after the dropped send() did not complete within 60 s although the peer was reading".into()));
            }
          }
        }
        seq += 1;
      }
      let _ = tokio::time::timeout(Duration::from_secs(10), sender.send_multipart(mk(stack::SENTINEL_SEQ))).await;
      match tokio::time::timeout(Duration::from_secs(30), reader).await {
        Ok(Ok((got, _saw_sentinel))) => {
          if std::env::var("VERIF_TRACE").is_ok() {
            eprintln!("[c09] {:?} {:?}: completed={} x_complete={} maybe={} x_seq={} follow={:?} got={:?}", sc, n, out.completed, x_complete, maybe, x_seq, follow, got);
          }
          if let Some(Err(e)) = got.iter().find(|g| g.is_err()) {
            if out.violation.is_none() {
              out.violation = Some(viol(sc, n, "loss_dup_or_partial", e.clone()));
            }
          } else if out.violation.is_none() {
            let seqs: Vec<u32> = got.iter().filter_map(|g| g.as_ref().ok().map(|x| x.0)).collect();
            let count = |q: u32| seqs.iter().filter(|s| **s == q).count();
            let mut bad = None;
            for q in 0..maybe {
              if count(q) != 1 {
                bad = Some(format!("accepted message {} delivered {} times", q, count(q)));
              }
            }
            for q in &follow {
              if count(*q) != 1 {
                bad = Some(format!("follow-up message {} delivered {} times", q, count(*q)));
              }
            }
            if count(x_seq) > 1 || (x_complete && count(x_seq) != 1) {
              bad = Some(format!("the frame-by-frame message was delivered {} times (all its sends completed: {})", count(x_seq), x_complete));
            }
            if !router && count(900) != 1 {
              bad = Some(format!("the contending send_multipart's message was delivered {} times", count(900)));
            }
            if let Some(b) = bad {
              out.violation = Some(viol(sc, n, "loss_dup_or_partial", format!("{}; received {:?}", b, seqs)));
            }
          }
        }
        _ => {
          if out.violation.is_none() {
            out.inconclusive = Some("reader did not finish".into());
          }
        }
      }
      let _ = receiver.close().await;
      let _ = sender.close().await;
    }
    // ------------------------------------------------------------------ recv parked, arrival later
    _ => {
      let (rty, sty) = match sc {
        Scenario::PullRecvArrival | Scenario::PullRecvMidMessage => ("PULL", "PUSH"),
        Scenario::SubRecvArrival => ("SUB", "PUB"),
        Scenario::DealerRecvMultipartArrival => ("DEALER", "DEALER"),
        Scenario::RouterRecvArrival => ("ROUTER", "DEALER"),
        Scenario::RepRecvArrival => ("REP", "REQ"),
        _ => ("REQ", "REP"),
      };
      let tr2 = if rty == "DEALER" && tr == Transport::Inproc { Transport::Ipc } else { tr };
      let (receiver, ep) = match stack::bound(&ctx, rty, tr2, &ro).await {
        Ok(x) => x,
        Err(e) => bail!(e),
      };
      if rty == "SUB" {
        let _ = receiver.set_option_raw(opt::SUBSCRIBE, b"").await;
      }
      let sender = match stack::connected(&ctx, sty, &ep, &ro).await {
        Ok(s) => s,
        Err(e) => bail!(e),
      };
      tokio::time::sleep(settle).await;
      if sty == "PUB" {
        // a PUB drops what it sends before the subscription has arrived: probe until one gets through
        let mut through = false;
        for _ in 0..250 {
          let _ = sender.send(Msg::from_static(b"probe")).await;
          if let Ok(Ok(_)) = tokio::time::timeout(Duration::from_millis(20), receiver.recv()).await {
            through = true;
            break;
          }
        }
        if !through {
          bail!("the subscription never became effective".into());
        }
        while let Ok(Ok(_)) = tokio::time::timeout(Duration::from_millis(150), receiver.recv()).await {}
      }
      let frames = if matches!(sc, Scenario::RepRecvArrival | Scenario::ReqRecvArrival) { 1 } else { 3 };
      if sc == Scenario::ReqRecvArrival {
        // REQ (receiver here) has to send its request first; the REP answers later
        if let Err(e) = receiver.send(msg(100, 1).remove(0)).await {
          bail!(format!("REQ send: {}", e));
        }
        if tokio::time::timeout(Duration::from_secs(2), sender.recv()).await.is_err() {
          bail!("REP never got the request".into());
        }
      }
      if sc == Scenario::PullRecvMidMessage {
        // a 3-frame message is already there; read its first frame normally
        if sender.send_multipart(msg(0, 3)).await.is_err() {
          bail!("send failed".into());
        }
        tokio::time::sleep(settle).await;
        if receiver.recv().await.is_err() {
          bail!("first frame not received".into());
        }
      }
      let snd = sender.clone();
      let sc2 = sc;
      let feeder = tokio::spawn(async move {
        tokio::time::sleep(Duration::from_millis(300)).await;
        if sc2 == Scenario::PullRecvMidMessage {
          return;
        }
        if frames == 1 {
          let _ = snd.send(msg(0, 1).remove(0)).await;
        } else {
          let _ = snd.send_multipart(msg(0, frames)).await;
        }
      });
      let rc = receiver.clone();
      let multipart_op = sc == Scenario::DealerRecvMultipartArrival;
      let r = cancel_after(
        async move {
          if multipart_op {
            rc.recv_multipart().await.map(|f| f.into_iter().collect::<Vec<Msg>>())
          } else {
            rc.recv().await.map(|m| vec![m])
          }
        },
        n,
        pend.clone(),
        wakes.clone(),
      )
      .await;
      out.completed = r.is_some();
      let _ = feeder.await;
      tokio::time::sleep(settle).await;
      // what the cancelled / completed operation handed over
      let mut taken: Vec<Vec<u8>> = match &r {
        Some(Ok(ms)) => ms.iter().map(|m| m.data().unwrap_or(&[]).to_vec()).collect(),
        _ => vec![],
      };
      // the rest must still be there: read everything frame by frame with a short timeout
      let mut rest: Vec<Vec<u8>> = Vec::new();
      if sc == Scenario::RepRecvArrival && r.is_some() {
        // REP took the request: answer it, the next request must be receivable
        let _ = receiver.send(Msg::from_static(b"ok")).await;
      }
      let fsm = matches!(sc, Scenario::RepRecvArrival | Scenario::ReqRecvArrival);
      loop {
        if fsm && (r.is_some() || !rest.is_empty()) {
          // strict alternation: exactly one recv is valid here, and it has happened
          break;
        }
        // nothing seen yet of a message that was sent: absence is only concluded after a long wait
        let patience = if taken.is_empty() && rest.is_empty() { 6000 } else { 400 };
        match tokio::time::timeout(Duration::from_millis(patience), receiver.recv()).await {
          Ok(Ok(m)) => rest.push(m.data().unwrap_or(&[]).to_vec()),
          Ok(Err(e)) => {
            if stack::err_kind(&e) == "invalid_state" {
              out.violation = Some(viol(sc, n, "socket_stuck", format!("the next valid recv() was rejected: {}", e)));
            }
            break;
          }
          Err(_) => break,
        }
      }
      if fsm && out.violation.is_none() {
        // and the call after it (a send) must be accepted
        let next = if sc == Scenario::RepRecvArrival && r.is_some() { Ok(()) } else { receiver.send(msg(7, 1).remove(0)).await };
        if let Err(e) = next {
          if stack::err_kind(&e) == "invalid_state" {
            out.violation = Some(viol(sc, n, "socket_stuck", format!("the send() after the completed recv() was rejected: {}", e)));
          }
        }
      }
      taken.extend(rest);
      // ROUTER prepends the identity frame
      if rty == "ROUTER" && !taken.is_empty() {
        taken.remove(0);
      }
      let expect_frames = if sc == Scenario::PullRecvMidMessage { 2 } else { frames };
      let parsed: Vec<_> = taken.iter().filter_map(|b| parse_acc(b).ok()).collect();
      let idxs: Vec<u16> = parsed.iter().map(|a| a.frame_idx).collect();
      let want: Vec<u16> = if sc == Scenario::PullRecvMidMessage { vec![1, 2] } else { (0..frames as u16).collect() };
      // REQ/REP recv() hand out only the first payload frame by design of this implementation;
      // they carry single-frame messages here
      if (parsed.len() != expect_frames || idxs != want) && out.violation.is_none() {
        out.violation = Some(viol(sc, n, "loss_dup_or_partial", format!("the message that arrived around the cancelled recv came out as frames {:?} (expected {:?}); raw frame count {}", idxs, want, taken.len())));
      }
      let _ = receiver.close().await;
      let _ = sender.close().await;
    }
  }
  let _ = tokio::time::timeout(Duration::from_secs(20), ctx.term()).await;
  out.pendings = pend.load(Ordering::SeqCst);
  out.wakes = wakes.load(Ordering::SeqCst);
  out
}

fn run_paused(sc: Scenario, n: Cut) -> Outcome {
  let rt = tokio::runtime::Builder::new_current_thread().enable_all().start_paused(true).build().unwrap();
  let o = rt.block_on(async { tokio::time::timeout(Duration::from_secs(600), run_scenario(sc, Transport::Inproc, n)).await });
  rt.shutdown_timeout(Duration::from_secs(1));
  o.unwrap_or(Outcome { wakes: 0, pendings: 0, completed: false, violation: None, inconclusive: Some("virtual-time ceiling".into()) })
}

fn run_real(sc: Scenario, tr: Transport, n: Cut) -> Outcome {
  let rt = tokio::runtime::Builder::new_multi_thread().worker_threads(2).enable_all().build().unwrap();
  let o = rt.block_on(async { tokio::time::timeout(Duration::from_secs(60), run_scenario(sc, tr, n)).await });
  rt.shutdown_timeout(Duration::from_secs(1));
  o.unwrap_or(Outcome { wakes: 0, pendings: 0, completed: false, violation: None, inconclusive: Some("watchdog".into()) })
}

fn is_send(sc: Scenario) -> bool {
  matches!(sc, Scenario::PushSendNoPeer | Scenario::DealerSendNoPeer | Scenario::ReqSendNoPeer | Scenario::PushSendPeerFull | Scenario::DealerMultipartPeerFull | Scenario::RouterMultipartPeerFull | Scenario::ReqSendPeerFull | Scenario::RouterFragmented(_) | Scenario::DealerFragmentedContended)
}

pub fn run(run: &mut Run) {
  run.level = "fault_enumeration";
  run.rule = "scenarios = {PUSH/DEALER/REQ send with no peer yet; PUSH send, DEALER and ROUTER send_multipart with the peer's queue full; PULL/SUB/ROUTER/REP/REQ recv and DEALER recv_multipart parked while a message arrives; PULL recv in the middle of a multipart message}. Enumerated (inproc, current-thread runtime, paused clock): each scenario once to completion, counting its k Pending polls and w wake-ups; then dropped right after Pending #n for n = 1..k, dropped after wake-up #n without another poll for n = 1..w, and dropped at virtual times around the moment the blocking condition goes away. Sampled: the same scenarios over tcp/ipc on a 2-thread runtime with a generated drop point (Pending index, wake index or 0..600 ms). Non-trivial = the future was dropped before it completed and traffic followed. Distinct = (scenario, transport, drop point)".into();
  run.assumptions = vec![
    "enumeration is complete per scenario for the schedule the paused current-thread runtime produces; other interleavings are sampled on the multi-thread runtime".into(),
    "a message whose send was dropped by a harness timeout during the fill phase may be absent or present (whole)".into(),
  ];
  let sub = "enumerated_inproc";
  let sub2 = "sampled_tcp";
  if let Some(case) = run.replay_case(sub).or_else(|| run.replay_case(sub2)) {
    let sc: Scenario = serde_json::from_value(case["scenario"].clone()).unwrap_or(Scenario::PushSendNoPeer);
    let cut: Cut = serde_json::from_value(case["cut"].clone()).unwrap_or(Cut::Never);
    let o = match case["transport"].as_str() {
      Some("inproc") => run_paused(sc, cut),
      Some("ipc") => run_real(sc, Transport::Ipc, cut),
      _ => run_real(sc, Transport::Tcp, cut),
    };
    if let Some(v) = o.violation {
      run.report(sub, v, case);
    }
    return;
  }
  if run.is_replay() {
    return;
  }
  let mut evals = 0u64;
  let mut complete = true;
  let mut ks = serde_json::Map::new();
  for sc in ALL {
    let base = run_paused(sc, Cut::Never);
    if let Some(w) = &base.inconclusive {
      run.note_inconclusive_case(sub, format!("{:?} baseline: {}", sc, w));
      complete = false;
      continue;
    }
    if let Some(v) = base.violation {
      // the un-cancelled scenario itself fails: report it as such
      run.report(sub, Violation::new("scenario_baseline", format!("{:?} without cancellation: {}", sc, v.detail)).with("scenario", format!("{:?}", sc)), json!({"scenario": sc, "cut": Cut::Never, "transport": "inproc"}));
      continue;
    }
    ks.insert(format!("{:?}", sc), json!({"pendings": base.pendings, "wakes": base.wakes}));
    let mut cuts: Vec<Cut> = (1..=base.pendings.max(1)).map(Cut::AtPending).collect();
    cuts.extend((1..=base.wakes.max(1)).map(Cut::AtWake));
    cuts.extend([0u64, 1, 150, 299, 300, 301, 330, 399, 400, 401, 430].into_iter().map(Cut::AtTime));
    for cut in cuts {
      let o = run_paused(sc, cut);
      evals += 1;
      let mut rec = CaseRec::default();
      rec.nontrivial = !o.completed;
      rec.label_if(!o.completed, "dropped_before_completion");
      rec.label(if is_send(sc) { "send_op" } else { "recv_op" });
      rec.label(match cut {
        Cut::AtPending(_) => "cut_at_pending",
        Cut::AtWake(_) => "cut_at_wake",
        _ => "cut_at_time",
      });
      let case = json!({"scenario": sc, "cut": cut, "transport": "inproc"});
      run.record_case(sub, || case.clone(), &rec, hash_of(&(sc, cut)));
      if let Some(w) = o.inconclusive {
        run.note_inconclusive_case(sub, format!("{:?} {:?}: {}", sc, cut, w));
        complete = false;
      }
      if let Some(v) = o.violation {
        run.report(sub, v, case);
      }
    }
  }
  run.set_extra("uncancelled_poll_counts", serde_json::Value::Object(ks));
  run.add_subspace("every Pending index, every wake-up index and 11 virtual drop times of each scenario on the paused current-thread runtime over inproc", evals, complete);
  // sampled over tcp / ipc on a multi-thread runtime
  let rounds = match run.tier {
    Tier::Quick => 4usize,
    Tier::Thorough => 40,
  };
  let mut jobs: Vec<(Scenario, Transport, Cut)> = Vec::new();
  for r in 0..rounds {
    for (i, sc) in ALL.iter().enumerate() {
      let tr = if (i + r) % 2 == 0 { Transport::Tcp } else { Transport::Ipc };
      let x = run.sub_seed(sub2, (r * 100 + i) as u64);
      let cut = match x % 4 {
        0 => Cut::AtPending(1 + ((x >> 8) % 3) as usize),
        1 => Cut::AtWake(1 + ((x >> 8) % 2) as usize),
        // around the unblocking event (300 / 400 ms after the start)
        2 => Cut::AtTime(280 + (x >> 8) % 160),
        _ => Cut::AtTime((x >> 8) % 600),
      };
      jobs.push((*sc, tr, cut));
    }
  }
  let results: Vec<_> = std::thread::scope(|s| {
    let hs: Vec<_> = jobs.chunks((jobs.len() + 7) / 8).map(|chunk| s.spawn(move || chunk.iter().map(|(sc, tr, n)| (*sc, *tr, *n, run_real(*sc, *tr, *n))).collect::<Vec<_>>())).collect();
    hs.into_iter().flat_map(|h| h.join().unwrap_or_default()).collect()
  });
  for (sc, tr, cut, o) in results {
    let mut rec = CaseRec::default();
    rec.nontrivial = !o.completed;
    rec.label(tr.name());
    rec.label_if(!o.completed, "dropped_before_completion");
    let case = json!({"scenario": sc, "cut": cut, "transport": tr.name()});
    run.record_case(sub2, || case.clone(), &rec, hash_of(&(sc, tr.name(), cut)));
    if let Some(w) = o.inconclusive {
      run.note_inconclusive_case(sub2, format!("{:?} {} {:?}: {}", sc, tr.name(), cut, w));
    }
    if let Some(v) = o.violation {
      run.report(sub2, v.with("transport", tr.name()), case);
    }
  }
  stack::cleanup_scratch();
}
