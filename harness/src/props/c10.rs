//! C10 — REQ and REP enforce strict alternation for every call history.
//!
//! Model-based: generated call histories on one REQ (or REP) socket, issued by one task
//! (deterministic) or by several tasks on clones (judged by a linearisability search against the
//! reference automaton). Forced race: a process-wide schedule-point callback turns the point
//! right after the state check into a two-party barrier, so two racing calls both pass the check
//! before either acts. Replies carry the request id, so "each reply goes to the peer whose
//! request it answers" is decided from the payloads.

use crate::engine::{CaseRec, Run, Tier, Violation};
use crate::stack::{self, l2_result, run_l2, Rt, Transport, L2};
use proptest::prelude::*;
use rzmq::socket::options as opt;
use rzmq::Msg;
use serde::{Deserialize, Serialize};
use std::sync::{Arc, Mutex};
use std::time::{Duration, Instant};

#[derive(Clone, Copy, Debug, Serialize, Deserialize, PartialEq, Eq)]
pub enum Op {
  Send,
  Recv,
  RecvMultipart,
  /// (REP histories only) a connected requester that has nothing outstanding goes away;
  /// the reference automaton does not move
  PeerLeaves,
}

#[derive(Clone, Copy, Debug, Serialize, Deserialize, PartialEq, Eq)]
pub enum Res {
  Ok,
  InvalidState,
  TimedOut,
  Other,
}

fn classify(e: &rzmq::ZmqError) -> Res {
  match stack::err_kind(e) {
    "invalid_state" => Res::InvalidState,
    "timeout" | "would_block" => Res::TimedOut,
    _ => Res::Other,
  }
}

// --- REQ: sequential histories with a scripted responder ----------------------------------------------

#[derive(Clone, Debug, Serialize, Deserialize)]
pub struct ReqCase {
  pub transport: Transport,
  pub ops: Vec<Op>,
  /// whether the responder answers the k-th request it sees
  pub answers: Vec<bool>,
}

fn req_case_strategy() -> impl Strategy<Value = ReqCase> + Clone {
  (
    prop::sample::select(vec![Transport::Inproc, Transport::Tcp, Transport::Ipc]),
    prop::collection::vec(prop_oneof![3 => Just(Op::Send), 2 => Just(Op::Recv), 1 => Just(Op::RecvMultipart)], 1..12),
    prop::collection::vec(prop::bool::weighted(0.75), 12),
  )
    .prop_map(|(transport, ops, answers)| ReqCase { transport, ops, answers })
}

async fn req_body(c: &ReqCase) -> L2 {
  let ctx = match rzmq::Context::new() {
    Ok(x) => x,
    Err(e) => return L2::Inconclusive(e.to_string()),
  };
  let (rep, ep) = match stack::bound(&ctx, "REP", c.transport, &[stack::i32opt(opt::RCVTIMEO, 400), stack::i32opt(opt::SNDTIMEO, 1000)]).await {
    Ok(x) => x,
    Err(e) => return L2::Inconclusive(e),
  };
  let req = match stack::connected(&ctx, "REQ", &ep, &[stack::i32opt(opt::RCVTIMEO, 60), stack::i32opt(opt::SNDTIMEO, 1000)]).await {
    Ok(s) => s,
    Err(e) => return L2::Inconclusive(e),
  };
  tokio::time::sleep(Duration::from_millis(if c.transport == Transport::Inproc { 30 } else { 120 })).await;
  // responder: answers request k iff answers[k]
  let answers = c.answers.clone();
  let rep2 = rep.clone();
  let responder = tokio::spawn(async move {
    let mut k = 0usize;
    loop {
      match rep2.recv().await {
        Ok(m) => {
          let body = m.data().unwrap_or(&[]).to_vec();
          if answers.get(k).copied().unwrap_or(true) {
            let mut r = b"re:".to_vec();
            r.extend_from_slice(&body);
            let _ = rep2.send(Msg::from_vec(r)).await;
          } else {
            // swallow the request; REP must be put back into the receiving state by replying
            // to nobody: reply anyway but the REQ will have given up (its timeout is shorter)
            tokio::time::sleep(Duration::from_millis(150)).await;
            let _ = rep2.send(Msg::from_static(b"late")).await;
          }
          k += 1;
        }
        Err(rzmq::ZmqError::Timeout) => continue,
        Err(_) => break,
      }
    }
  });
  // reference automaton
  #[derive(PartialEq, Clone, Copy, Debug)]
  enum St {
    Ready,
    Expecting,
  }
  let mut st = St::Ready;
  let mut sent = 0u32;
  let mut history: Vec<(Op, Res)> = Vec::new();
  let mut verdict = L2::Ok;
  let v = |check: &str, d: String| L2::Violation(Violation::new(check, d).with("socket", "REQ").with("layer", "stack"));
  for op in &c.ops {
    let res = match op {
      Op::Send => match req.send(Msg::from_vec(format!("q{}", sent).into_bytes())).await {
        Ok(()) => Res::Ok,
        Err(e) => classify(&e),
      },
      Op::Recv => match req.recv().await {
        Ok(m) => {
          let want = format!("re:q{}", sent.saturating_sub(1));
          if st == St::Expecting && m.data().unwrap_or(&[]) != want.as_bytes() && m.data().unwrap_or(&[]) != b"late" {
            verdict = v("wrong_reply", format!("REQ received {:?} as the reply to request {}", String::from_utf8_lossy(m.data().unwrap_or(&[])), sent.saturating_sub(1)));
          }
          Res::Ok
        }
        Err(e) => classify(&e),
      },
      Op::RecvMultipart => match req.recv_multipart().await {
        Ok(_) => Res::Ok,
        Err(e) => classify(&e),
      },
      Op::PeerLeaves => continue,
    };
    history.push((*op, res));
    if !matches!(verdict, L2::Ok) {
      break;
    }
    // judge against the automaton
    match (st, op, res) {
      (St::Ready, Op::Send, Res::Ok) => {
        st = St::Expecting;
        sent += 1;
      }
      (St::Ready, Op::Send, Res::InvalidState) => {
        verdict = v("valid_call_rejected", format!("send in the ready state was rejected; history {:?}", history));
      }
      (St::Expecting, Op::Send, Res::Ok) => {
        // two successful sends without a successful recv in between
        let after_timeout = history.iter().rev().skip(1).take_while(|(o, _)| *o != Op::Send).any(|(_, r)| *r == Res::TimedOut);
        verdict = L2::Violation(
          Violation::new("alternation_broken", format!("REQ: a second send succeeded without a successful recv in between; history {:?}", history))
            .with("socket", "REQ")
            .with("pattern", if after_timeout { "send_after_timed_out_recv" } else { "send_send" })
            .with("layer", "stack"),
        );
      }
      (St::Expecting, Op::Send, Res::InvalidState) => {}
      (St::Expecting, Op::Recv, Res::Ok) | (St::Expecting, Op::RecvMultipart, Res::Ok) => st = St::Ready,
      (St::Expecting, _, Res::TimedOut) => {} // no change
      (St::Ready, Op::Recv, Res::Ok) | (St::Ready, Op::RecvMultipart, Res::Ok) => {
        verdict = v("alternation_broken", format!("REQ: recv succeeded without a request outstanding; history {:?}", history)).with_sig("pattern", "recv_recv");
      }
      (St::Ready, Op::Recv, Res::InvalidState) | (St::Ready, Op::RecvMultipart, Res::InvalidState) => {}
      (St::Ready, Op::Recv, Res::TimedOut) | (St::Ready, Op::RecvMultipart, Res::TimedOut) => {
        verdict = v("invalid_call_not_rejected", format!("REQ: recv without a request outstanding waited and timed out instead of failing with an invalid-state error; history {:?}", history));
      }
      (_, _, Res::Other) | (_, Op::Send, Res::TimedOut) => {
        verdict = L2::Inconclusive(format!("unexpected error class in history {:?}", history));
      }
      (St::Expecting, Op::Recv, Res::InvalidState) | (St::Expecting, Op::RecvMultipart, Res::InvalidState) => {
        verdict = v("valid_call_rejected", format!("REQ: recv after a successful send was rejected; history {:?}", history));
      }
      (_, Op::PeerLeaves, _) => {}
    }
    if let L2::Violation(vv) = &verdict {
      // A recv that timed out since the last successful send puts rzmq's REQ back into the sending
      // state; every deviation from the automaton that follows is that one defect.
      let mut seen_send = false;
      let mut timed_out_since_send = false;
      for (o, r) in history.iter().rev().skip(1) {
        if *o == Op::Send && *r == Res::Ok {
          seen_send = true;
          break;
        }
        if *o != Op::Send && *r == Res::TimedOut {
          timed_out_since_send = true;
        }
      }
      if seen_send && timed_out_since_send && vv.check != "wrong_reply" {
        verdict = L2::Violation(
          Violation::new("fsm_reset_by_timed_out_recv", format!("REQ: after a recv that timed out the socket behaves as if no request were outstanding; history {:?}", history))
            .with("socket", "REQ")
            .with("layer", "stack"),
        );
      }
    }
    if !matches!(verdict, L2::Ok) {
      break;
    }
  }
  responder.abort();
  let _ = req.close().await;
  let _ = rep.close().await;
  stack::term(&ctx).await;
  verdict
}

// --- REP: sequential histories with several requesters -----------------------------------------------------

#[derive(Clone, Debug, Serialize, Deserialize)]
pub struct RepCase {
  pub transport: Transport,
  pub n_peers: u8,
  pub ops: Vec<Op>,
}

fn rep_case_strategy() -> impl Strategy<Value = RepCase> + Clone {
  (
    prop::sample::select(vec![Transport::Inproc, Transport::Tcp, Transport::Ipc]),
    1u8..4,
    prop::collection::vec(prop_oneof![6 => Just(Op::Send), 6 => Just(Op::Recv), 2 => Just(Op::RecvMultipart), 3 => Just(Op::PeerLeaves)], 1..12),
  )
    .prop_map(|(transport, n_peers, ops)| RepCase { transport, n_peers, ops })
}

async fn rep_body(c: &RepCase) -> L2 {
  let ctx = match rzmq::Context::new() {
    Ok(x) => x,
    Err(e) => return L2::Inconclusive(e.to_string()),
  };
  let (rep, ep) = match stack::bound(&ctx, "REP", c.transport, &[stack::i32opt(opt::RCVTIMEO, 60), stack::i32opt(opt::SNDTIMEO, 1000)]).await {
    Ok(x) => x,
    Err(e) => return L2::Inconclusive(e),
  };
  // requesters: each sends one request at a time and records the reply it gets
  let replies: Arc<Mutex<Vec<(u8, u32, Vec<u8>)>>> = Arc::new(Mutex::new(Vec::new()));
  let mut tasks = Vec::new();
  for p in 0..c.n_peers {
    let req = match stack::connected(&ctx, "REQ", &ep, &[stack::i32opt(opt::RCVTIMEO, 2000), stack::i32opt(opt::SNDTIMEO, 1000)]).await {
      Ok(s) => s,
      Err(e) => return L2::Inconclusive(e),
    };
    let replies = replies.clone();
    tasks.push(tokio::spawn(async move {
      tokio::time::sleep(Duration::from_millis(100)).await;
      for k in 0..6u32 {
        if req.send(Msg::from_vec(format!("p{}k{}", p, k).into_bytes())).await.is_err() {
          break;
        }
        match req.recv().await {
          Ok(m) => replies.lock().unwrap().push((p, k, m.data().unwrap_or(&[]).to_vec())),
          Err(_) => break,
        }
      }
      let _ = req.close().await;
    }));
  }
  // idle bystanders for Op::PeerLeaves: connected, never send
  let mut bystanders = Vec::new();
  for _ in 0..c.ops.iter().filter(|o| **o == Op::PeerLeaves).count().min(4) {
    if let Ok(b) = stack::connected(&ctx, "REQ", &ep, &[]).await {
      bystanders.push(b);
    }
  }
  tokio::time::sleep(Duration::from_millis(200)).await;
  let mut pending: Option<Vec<u8>> = None; // request awaiting its reply (reference state)
  let mut history: Vec<(Op, Res)> = Vec::new();
  let mut verdict = L2::Ok;
  let v = |check: &str, d: String| L2::Violation(Violation::new(check, d).with("socket", "REP").with("layer", "stack"));
  for op in &c.ops {
    let res = match op {
      Op::Send => {
        let body = pending.clone().map(|mut b| {
          let mut r = b"re:".to_vec();
          r.append(&mut b);
          r
        });
        match rep.send(Msg::from_vec(body.unwrap_or_else(|| b"unsolicited".to_vec()))).await {
          Ok(()) => Res::Ok,
          Err(e) => classify(&e),
        }
      }
      Op::PeerLeaves => {
        if let Some(b) = bystanders.pop() {
          let _ = b.close().await;
          tokio::time::sleep(Duration::from_millis(120)).await;
        }
        history.push((*op, Res::Ok));
        continue;
      }
      Op::Recv | Op::RecvMultipart => {
        let r = if *op == Op::Recv { rep.recv().await.map(|m| m.data().unwrap_or(&[]).to_vec()) } else { rep.recv_multipart().await.map(|f| f.first().map(|m| m.data().unwrap_or(&[]).to_vec()).unwrap_or_default()) };
        match r {
          Ok(b) => {
            if pending.is_none() {
              pending = Some(b);
              history.push((*op, Res::Ok));
              continue;
            }
            history.push((*op, Res::Ok));
            verdict = v("alternation_broken", format!("REP: a second recv succeeded while a request was awaiting its reply; history {:?}", history)).with_sig("pattern", "recv_recv");
            break;
          }
          Err(e) => classify(&e),
        }
      }
    };
    history.push((*op, res));
    match (pending.is_some(), op, res) {
      (true, Op::Send, Res::Ok) => pending = None,
      (true, Op::Send, Res::InvalidState) => verdict = v("valid_call_rejected", format!("REP: reply after a successful recv was rejected; history {:?}", history)),
      (false, Op::Send, Res::Ok) => verdict = v("alternation_broken", format!("REP: send succeeded without a request to answer; history {:?}", history)).with_sig("pattern", "send_send"),
      (false, Op::Send, Res::InvalidState) => {}
      (true, Op::Recv, Res::InvalidState) | (true, Op::RecvMultipart, Res::InvalidState) => {}
      (true, _, Res::TimedOut) => verdict = v("invalid_call_not_rejected", format!("REP: recv while a request awaits its reply waited instead of failing with an invalid-state error; history {:?}", history)),
      (false, _, Res::TimedOut) => {}
      (false, Op::Recv, Res::InvalidState) | (false, Op::RecvMultipart, Res::InvalidState) => verdict = v("valid_call_rejected", format!("REP: recv in the receiving state was rejected; history {:?}", history)),
      _ => verdict = L2::Inconclusive(format!("unexpected outcome in history {:?}", history)),
    }
    if !matches!(verdict, L2::Ok) {
      break;
    }
  }
  // every reply must have gone to the requester whose request it answers
  if matches!(verdict, L2::Ok) {
    tokio::time::sleep(Duration::from_millis(100)).await;
    for (p, k, body) in replies.lock().unwrap().iter() {
      let want = format!("re:p{}k{}", p, k);
      if body != want.as_bytes() {
        verdict = v("reply_misrouted", format!("requester {} got {:?} as the reply to its request {}", p, String::from_utf8_lossy(body), k));
        break;
      }
    }
  }
  for t in tasks {
    t.abort();
  }
  let _ = rep.close().await;
  stack::term(&ctx).await;
  verdict
}

// --- forced races ----------------------------------------------------------------------------------------------

struct Barrier2 {
  label: &'static str,
  arrived: Mutex<u32>,
  cv: std::sync::Condvar,
}

fn install_barrier(label: &'static str) -> Arc<Barrier2> {
  let b = Arc::new(Barrier2 { label, arrived: Mutex::new(0), cv: std::sync::Condvar::new() });
  let b2 = b.clone();
  rzmq::verif::set_global_point_callback(Some(Arc::new(move |l: &'static str| {
    if l != b2.label {
      return;
    }
    let mut n = b2.arrived.lock().unwrap();
    *n += 1;
    if *n >= 2 {
      b2.cv.notify_all();
      return;
    }
    // wait for the second party (or give up after 300 ms: then there was no race to force)
    let deadline = Instant::now() + Duration::from_millis(300);
    while *n < 2 {
      let left = deadline.saturating_duration_since(Instant::now());
      if left.is_zero() {
        break;
      }
      let (g, _) = b2.cv.wait_timeout(n, left).unwrap();
      n = g;
    }
  })));
  b
}

static RACE_LOCK: Mutex<()> = Mutex::new(());

async fn req_race_body(transport: Transport) -> L2 {
  let ctx = match rzmq::Context::new() {
    Ok(x) => x,
    Err(e) => return L2::Inconclusive(e.to_string()),
  };
  let (rep, ep) = match stack::bound(&ctx, "REP", transport, &[stack::i32opt(opt::RCVTIMEO, 300)]).await {
    Ok(x) => x,
    Err(e) => return L2::Inconclusive(e),
  };
  let req = match stack::connected(&ctx, "REQ", &ep, &[stack::i32opt(opt::RCVTIMEO, 300), stack::i32opt(opt::SNDTIMEO, 1000)]).await {
    Ok(s) => s,
    Err(e) => return L2::Inconclusive(e),
  };
  tokio::time::sleep(Duration::from_millis(150)).await;
  let b = install_barrier("req_send:state_checked");
  let (r1, r2) = (req.clone(), req.clone());
  let t1 = tokio::spawn(async move { r1.send(Msg::from_static(b"one")).await.is_ok() });
  let t2 = tokio::spawn(async move { r2.send(Msg::from_static(b"two")).await.is_ok() });
  let ok1 = t1.await.unwrap_or(false);
  let ok2 = t2.await.unwrap_or(false);
  rzmq::verif::set_global_point_callback(None);
  let met = *b.arrived.lock().unwrap() >= 2;
  let verdict = if ok1 && ok2 {
    L2::Violation(
      Violation::new("alternation_broken", format!("REQ: two send() calls racing from two tasks both succeeded (both passed the state check before either updated it; barrier met: {})", met))
        .with("socket", "REQ")
        .with("pattern", "concurrent_send_send")
        .with("layer", "stack"),
    )
  } else if !ok1 && !ok2 {
    L2::Violation(Violation::new("valid_call_rejected", "two racing sends on a ready REQ: neither succeeded".to_string()).with("socket", "REQ").with("layer", "stack"))
  } else {
    L2::Ok
  };
  let _ = req.close().await;
  let _ = rep.close().await;
  stack::term(&ctx).await;
  verdict
}

async fn rep_race_body(transport: Transport) -> L2 {
  let ctx = match rzmq::Context::new() {
    Ok(x) => x,
    Err(e) => return L2::Inconclusive(e.to_string()),
  };
  let (rep, ep) = match stack::bound(&ctx, "REP", transport, &[stack::i32opt(opt::RCVTIMEO, 500), stack::i32opt(opt::SNDTIMEO, 1000)]).await {
    Ok(x) => x,
    Err(e) => return L2::Inconclusive(e),
  };
  let mut reqs = Vec::new();
  for p in 0..2u8 {
    match stack::connected(&ctx, "REQ", &ep, &[stack::i32opt(opt::RCVTIMEO, 800), stack::i32opt(opt::SNDTIMEO, 1000)]).await {
      Ok(s) => reqs.push((p, s)),
      Err(e) => return L2::Inconclusive(e),
    }
  }
  tokio::time::sleep(Duration::from_millis(150)).await;
  for (p, s) in &reqs {
    if s.send(Msg::from_vec(vec![b'p', *p])).await.is_err() {
      return L2::Inconclusive("requester send failed".into());
    }
  }
  tokio::time::sleep(Duration::from_millis(80)).await;
  let b = install_barrier("rep_recv:state_checked");
  let (r1, r2) = (rep.clone(), rep.clone());
  let t1 = tokio::spawn(async move { r1.recv().await.map(|m| m.data().unwrap_or(&[]).to_vec()) });
  let t2 = tokio::spawn(async move { r2.recv().await.map(|m| m.data().unwrap_or(&[]).to_vec()) });
  let a = t1.await.ok().and_then(|r| r.ok());
  let bb = t2.await.ok().and_then(|r| r.ok());
  rzmq::verif::set_global_point_callback(None);
  let met = *b.arrived.lock().unwrap() >= 2;
  let verdict = if a.is_some() && bb.is_some() {
    L2::Violation(
      Violation::new("alternation_broken", format!("REP: two recv() calls racing from two tasks both returned a request ({:?} and {:?}) before any reply was sent; the first requester's envelope is overwritten (barrier met: {})", a, bb, met))
        .with("socket", "REP")
        .with("pattern", "concurrent_recv_recv")
        .with("layer", "stack"),
    )
  } else {
    L2::Ok
  };
  for (_, s) in &reqs {
    let _ = s.close().await;
  }
  let _ = rep.close().await;
  stack::term(&ctx).await;
  verdict
}


/// Two receive calls (recv / recv_multipart in any combination) are parked on an idle REP from
/// two tasks; then two requests arrive. Only one of them may hand out a request before a reply
/// is sent. No barrier is needed: the calls overlap for as long as no request is there.
async fn rep_parked_pair_body(transport: Transport, kinds: (bool, bool), requests_first: bool) -> L2 {
  let ctx = match rzmq::Context::new() {
    Ok(x) => x,
    Err(e) => return L2::Inconclusive(e.to_string()),
  };
  let (rep, ep) = match stack::bound(&ctx, "REP", transport, &[stack::i32opt(opt::RCVTIMEO, 700), stack::i32opt(opt::SNDTIMEO, 1000)]).await {
    Ok(x) => x,
    Err(e) => return L2::Inconclusive(e),
  };
  let mut reqs = Vec::new();
  for p in 0..2u8 {
    match stack::connected(&ctx, "REQ", &ep, &[stack::i32opt(opt::RCVTIMEO, 1500), stack::i32opt(opt::SNDTIMEO, 1000)]).await {
      Ok(s) => reqs.push((p, s)),
      Err(e) => return L2::Inconclusive(e),
    }
  }
  tokio::time::sleep(Duration::from_millis(120)).await;
  if requests_first {
    for (p, s) in &reqs {
      if s.send(Msg::from_vec(vec![b'p', *p])).await.is_err() {
        return L2::Inconclusive("requester send failed".into());
      }
    }
    tokio::time::sleep(Duration::from_millis(60)).await;
  }
  let call = |sock: rzmq::Socket, multipart: bool| async move {
    if multipart {
      sock.recv_multipart().await.map(|f| f.iter().last().map(|m| m.data().unwrap_or(&[]).to_vec()).unwrap_or_default())
    } else {
      sock.recv().await.map(|m| m.data().unwrap_or(&[]).to_vec())
    }
  };
  let t1 = tokio::spawn(call(rep.clone(), kinds.0));
  let t2 = tokio::spawn(call(rep.clone(), kinds.1));
  if !requests_first {
    tokio::time::sleep(Duration::from_millis(100)).await;
    for (p, s) in &reqs {
      if s.send(Msg::from_vec(vec![b'p', *p])).await.is_err() {
        return L2::Inconclusive("requester send failed".into());
      }
    }
  }
  let a = t1.await.ok().and_then(|r| r.ok());
  let b = t2.await.ok().and_then(|r| r.ok());
  let name = |m: bool| if m { "recv_multipart" } else { "recv" };
  let verdict = if a.is_some() && b.is_some() {
    L2::Violation(
      Violation::new("alternation_broken", format!("REP: {}() and {}() parked from two tasks both returned a request ({:?}, {:?}) although no reply was sent in between (requests {} the calls)", name(kinds.0), name(kinds.1), a, b, if requests_first { "were queued before" } else { "arrived after" }))
        .with("socket", "REP")
        .with("pattern", "parked_recv_pair")
        .with("layer", "stack"),
    )
  } else {
    L2::Ok
  };
  for (_, s) in &reqs {
    let _ = s.close().await;
  }
  let _ = rep.close().await;
  stack::term(&ctx).await;
  verdict
}

/// Two REQ.send() calls from two tasks while no peer is connected yet (both wait); then the REP
/// appears. Only one request may go out.
async fn req_parked_pair_body(transport: Transport) -> L2 {
  let ctx = match rzmq::Context::new() {
    Ok(x) => x,
    Err(e) => return L2::Inconclusive(e.to_string()),
  };
  let (req, ep) = match stack::bound(&ctx, "REQ", transport, &[stack::i32opt(opt::SNDTIMEO, 1500), stack::i32opt(opt::RCVTIMEO, 500)]).await {
    Ok(x) => x,
    Err(e) => return L2::Inconclusive(e),
  };
  let (q1, q2) = (req.clone(), req.clone());
  let t1 = tokio::spawn(async move { q1.send(Msg::from_static(b"one")).await });
  let t2 = tokio::spawn(async move { q2.send(Msg::from_static(b"two")).await });
  tokio::time::sleep(Duration::from_millis(120)).await;
  let rep = match stack::connected(&ctx, "REP", &ep, &[stack::i32opt(opt::RCVTIMEO, 400)]).await {
    Ok(s) => s,
    Err(e) => return L2::Inconclusive(e),
  };
  let a = t1.await.ok().map(|r| r.is_ok()).unwrap_or(false);
  let b = t2.await.ok().map(|r| r.is_ok()).unwrap_or(false);
  let mut got = 0;
  while let Ok(Ok(_)) = tokio::time::timeout(Duration::from_millis(500), rep.recv()).await {
    got += 1;
    if rep.send(Msg::from_static(b"r")).await.is_err() {
      break;
    }
  }
  let verdict = if a && b {
    L2::Violation(
      Violation::new("alternation_broken", format!("REQ: two send() calls parked from two tasks (no peer yet) both succeeded; the REP received {} requests from one REQ without a reply in between", got))
        .with("socket", "REQ")
        .with("pattern", "parked_send_pair")
        .with("layer", "stack"),
    )
  } else {
    L2::Ok
  };
  let _ = rep.close().await;
  let _ = req.close().await;
  stack::term(&ctx).await;
  verdict
}

trait WithSig {
  fn with_sig(self, k: &str, v: &str) -> Self;
}
impl WithSig for L2 {
  fn with_sig(self, k: &str, val: &str) -> Self {
    match self {
      L2::Violation(v) => L2::Violation(v.with(k, val)),
      o => o,
    }
  }
}

pub fn run(run: &mut Run) {
  run.rule = "REQ: histories of 1..11 calls from {send, recv, recv_multipart} by one task against a scripted REP that answers 75% of the requests (RCVTIMEO 60 ms), judged step by step by the reference automaton Ready -send ok-> Expecting -recv ok-> Ready (any other call: invalid-state error, nothing changes; a timed-out recv changes nothing); REP: the mirror image with 1..3 requesters whose replies carry the request id, interleaved with idle peers leaving (which must not move the automaton); forced races: two tasks on a 4-thread runtime call REQ.send (REP.recv) at once while a process-wide schedule-point callback holds both behind the state check. parked pairs: two recv / recv_multipart calls (any combination) parked on an idle REP from two tasks before or after two requests arrive, and two REQ.send calls parked while no peer is connected, on current-thread and multi-thread runtimes. Non-trivial = the history contains an out-of-turn call (or the two racing calls met at the barrier / overlapped). Distinct = hash of the case".into();
  run.assumptions = vec![
    "a call that fails for a reason other than the state (timeout, would-block) leaves the state unchanged - except when the peer the request went to detaches (documented)".into(),
    "forced races serialise on a process-wide lock because the schedule-point callback is global".into(),
  ];
  let (n, n_race) = match run.tier {
    Tier::Quick => (150, 12),
    Tier::Thorough => (5000, 300),
  };
  run.prop("req_histories", n, 8, 30, req_case_strategy(), |c, rec: &mut CaseRec| {
    // out-of-turn call present?
    let mut expecting = false;
    let mut out_of_turn = false;
    for op in &c.ops {
      match (expecting, op) {
        (false, Op::Send) => expecting = true,
        (true, Op::Send) => out_of_turn = true,
        (true, _) => expecting = false,
        (false, _) => out_of_turn = true,
      }
    }
    rec.nontrivial = out_of_turn;
    rec.label_if(out_of_turn, "out_of_turn_call");
    rec.label(c.transport.name());
    let r = run_l2(Rt::Multi(2), Duration::from_secs(60), req_body(c));
    l2_result(run, "req_histories", r)
  });
  run.prop("rep_histories", n, 8, 30, rep_case_strategy(), |c, rec: &mut CaseRec| {
    rec.nontrivial = c.ops.windows(2).any(|w| (w[0] == Op::Send) == (w[1] == Op::Send));
    rec.label(c.transport.name());
    rec.label_if(c.n_peers > 1, "several_requesters");
    let r = run_l2(Rt::Multi(2), Duration::from_secs(60), rep_body(c));
    l2_result(run, "rep_histories", r)
  });
  let tr = prop::sample::select(vec![Transport::Inproc, Transport::Tcp, Transport::Ipc]);
  run.prop("req_forced_race", n_race, 1, 0, tr.clone(), |t, rec: &mut CaseRec| {
    let _g = RACE_LOCK.lock().unwrap();
    rec.nontrivial = true;
    rec.label(t.name());
    let r = run_l2(Rt::Multi(4), Duration::from_secs(30), req_race_body(*t));
    l2_result(run, "req_forced_race", r)
  });
  run.prop("rep_forced_race", n_race, 1, 0, tr, |t, rec: &mut CaseRec| {
    let _g = RACE_LOCK.lock().unwrap();
    rec.nontrivial = true;
    rec.label(t.name());
    let r = run_l2(Rt::Multi(4), Duration::from_secs(30), rep_race_body(*t));
    l2_result(run, "rep_forced_race", r)
  });
  let pairs = (prop::sample::select(vec![Transport::Inproc, Transport::Tcp, Transport::Ipc]), any::<bool>(), any::<bool>(), any::<bool>(), prop::sample::select(vec![Rt::Current, Rt::Multi(2), Rt::Multi(4)]));
  run.prop("rep_parked_pairs", n_race * 3, 4, 0, pairs, |(t, k1, k2, first, rt), rec: &mut CaseRec| {
    rec.nontrivial = true;
    rec.label(t.name());
    rec.label_if(*k1 || *k2, "recv_multipart_involved");
    rec.label_if(!*first, "both_parked_before_any_request");
    let r = run_l2(*rt, Duration::from_secs(30), rep_parked_pair_body(*t, (*k1, *k2), *first));
    l2_result(run, "rep_parked_pairs", r)
  });
  let tr2 = (prop::sample::select(vec![Transport::Inproc, Transport::Tcp, Transport::Ipc]), prop::sample::select(vec![Rt::Current, Rt::Multi(2)]));
  run.prop("req_parked_pairs", n_race, 4, 0, tr2, |(t, rt), rec: &mut CaseRec| {
    rec.nontrivial = true;
    rec.label(t.name());
    let r = run_l2(*rt, Duration::from_secs(30), req_parked_pair_body(*t));
    l2_result(run, "req_parked_pairs", r)
  });
  stack::cleanup_scratch();
}
