//! C20 — the io_uring backend is observably equivalent to the Tokio backend.
//!
//! The io_uring backend is a process-wide singleton with one pool configuration per process, so
//! every generated case (pool configuration + a list of workloads) runs in a child process of
//! this same binary (`rzmq-verif c20-child`). The child runs each workload twice - once with
//! IO_URING_SESSION_ENABLED off (reference) and once with it on, with the generated zero-copy /
//! multishot / cork / threshold knobs - and reports both observations. Oracles:
//!   * differential: delivered messages per connection and order, handshake outcome events,
//!     kinds of send/recv errors are equal on both backends;
//!   * absolute (so that a bug both backends share is not mistaken for equivalence): the
//!     accounting payloads arrive complete, in order, once;
//!   * after quiescence of the io_uring run: every send-pool buffer is free again, no receive
//!     chunk is outstanding, the provided ring is fully provided, no handler is left, every
//!     registered fd got exactly one successful close, and /proc/self/fd is back to its count.

use crate::engine::{hash_of, CaseRec, Run, Tier, Violation};
use proptest::prelude::*;
use serde::{Deserialize, Serialize};
use serde_json::{json, Value};
use std::collections::BTreeSet;

#[derive(Clone, Copy, Debug, Serialize, Deserialize, PartialEq, Eq, Hash)]
pub struct UCfg {
  pub zc_default: bool,
  pub ms_default: bool,
  pub recv_cnt: u16,
  pub recv_size: u32,
  pub send_cnt: u16,
  pub send_size: u32,
}

#[derive(Clone, Copy, Debug, Serialize, Deserialize, PartialEq, Eq, Hash)]
pub enum Pattern {
  PushPull,
  DealerRouter,
  ReqRep,
  PubSub,
}

#[derive(Clone, Copy, Debug, Serialize, Deserialize, PartialEq, Eq, Hash)]
pub enum Side {
  Both,
  Sender,
  Receiver,
}

#[derive(Clone, Copy, Debug, Serialize, Deserialize, PartialEq, Eq, Hash)]
pub enum Mech {
  Null,
  Plain,
  PlainWrongPassword,
  Curve,
  CurveWrongServerKey,
}

#[derive(Clone, Copy, Debug, Serialize, Deserialize, PartialEq, Eq, Hash)]
pub struct Knobs {
  pub zerocopy: bool,
  pub multishot: bool,
  pub cork: bool,
  pub zc_threshold: u32,
}

#[derive(Clone, Copy, Debug, Serialize, Deserialize, PartialEq, Eq, Hash)]
pub enum HsFault {
  BadSignature,
  TruncatedGreetingThenClose,
  UnknownMechanism,
  WrongSocketType,
  GarbageInsteadOfReady,
  ErrorCommand,
  CloseAfterGreeting,
}

#[derive(Clone, Debug, Serialize, Deserialize, PartialEq, Eq, Hash)]
pub enum FeedTail {
  Sentinel,
  OversizeFrame,
  ReservedFlagBits,
  HalfFrameThenClose,
  /// all messages complete, then the peer shuts its write side at once
  CloseAfterLast,
}

#[derive(Clone, Debug, Serialize, Deserialize, PartialEq, Eq, Hash)]
pub enum Workload {
  /// rzmq to rzmq; `batches` = connections in sequence (the sender reconnects between them)
  Stream { pattern: Pattern, side: Side, sender_binds: bool, knobs: Knobs, mech: Mech, batches: Vec<Vec<Vec<u32>>>, small_hwm: bool },
  /// rzmq PUSH to a raw peer that stops reading for a while
  RawStall { knobs: Knobs, msgs: u16, size: u32, sndhwm: u16, sndtimeo_ms: u16, stall_ms: u16, resume: bool },
  /// raw peer misbehaving during the handshake
  RawHandshake { rzmq_binds: bool, knobs: Knobs, fault: HsFault },
  /// rzmq PUSH connected to a raw peer that drops the connection `drops` times after reading a
  /// message each; the socket has to come back and deliver the next message
  RawReconnect { knobs: Knobs, drops: u8, size: u32 },
  /// several PUSH sockets at once into one PULL (the io_uring end): the connections compete for
  /// the shared receive ring
  FanIn { knobs: Knobs, senders: u8, per_sender: u16, size: u32, senders_uring: bool },
  /// raw PUSH peer feeding an rzmq PULL with generated chunking
  RawFeed { knobs: Knobs, msgs: Vec<Vec<u32>>, chunks: Vec<u16>, maxmsgsize: Option<u32>, tail: FeedTail },
}

/// What one backend showed for one workload.
#[derive(Clone, Debug, Default, Serialize, Deserialize, PartialEq, Eq)]
pub struct Obs {
  /// per connection, per message: "seq/frames/bytes"
  pub delivered: Vec<Vec<String>>,
  pub errors: BTreeSet<String>,
  pub events: BTreeSet<String>,
  pub facts: Vec<String>,
  pub abs_violation: Option<String>,
  pub inconclusive: Option<String>,
}

#[derive(Clone, Debug, Default, Serialize, Deserialize)]
pub struct WResult {
  pub idx: usize,
  pub tokio: Obs,
  pub uring: Obs,
  pub quiescence: Vec<String>,
  pub gauges: String,
  pub fd_before: usize,
  pub fd_after: usize,
  pub handlers_seen: usize,
  pub zc_used: bool,
}

// ------------------------------------------------------------------------------------------
// generators (parent side)

fn cfg_strategy() -> impl Strategy<Value = UCfg> {
  (any::<bool>(), any::<bool>(), prop_oneof![Just(2u16), Just(4), Just(8), Just(16)], prop_oneof![Just(4096u32), Just(8192), Just(16384), Just(65536)], 2u16..=16, prop_oneof![Just(4096u32), Just(8192), Just(16384), Just(65536)])
    .prop_map(|(zc_default, ms_default, recv_cnt, recv_size, send_cnt, send_size)| UCfg { zc_default, ms_default, recv_cnt, recv_size, send_cnt, send_size })
}

fn knobs_strategy(cfg: UCfg) -> impl Strategy<Value = Knobs> {
  (any::<bool>(), any::<bool>(), any::<bool>(), prop_oneof![Just(1u32), Just(512), Just(1024), Just(cfg.send_size / 2), Just(16384)]).prop_map(|(zerocopy, multishot, cork, zc_threshold)| Knobs { zerocopy, multishot, cork, zc_threshold: zc_threshold.max(1) })
}

/// Frame sizes aimed at the boundaries: empty, tiny, short/long header, the zero-copy threshold,
/// the receive buffer size, the send buffer size, and multiples of them.
fn size_strategy(cfg: UCfg, k: Knobs) -> impl Strategy<Value = u32> {
  let around = |c: u32| (0u32..5).prop_map(move |d| (c + d).saturating_sub(2));
  prop_oneof![
    3 => 0u32..64,
    1 => around(255),
    2 => around(k.zc_threshold),
    2 => around(cfg.recv_size),
    2 => around(cfg.send_size),
    1 => around(cfg.recv_size * 2),
    1 => (1u32..4, 0u32..4096).prop_map(move |(m, r)| cfg.send_size * m + r),
    2 => 64u32..4096,
  ]
  .prop_map(|s| s.min(300_000))
}

fn messages_strategy(cfg: UCfg, k: Knobs, max_msgs: usize) -> impl Strategy<Value = Vec<Vec<u32>>> {
  proptest::collection::vec(proptest::collection::vec(size_strategy(cfg, k), 1..4), 1..max_msgs)
}

fn workload_strategy(cfg: UCfg) -> impl Strategy<Value = Workload> {
  knobs_strategy(cfg).prop_flat_map(move |k| {
    let stream = (
      prop_oneof![3 => Just(Pattern::PushPull), 2 => Just(Pattern::DealerRouter), 2 => Just(Pattern::ReqRep), 1 => Just(Pattern::PubSub)],
      prop_oneof![3 => Just(Side::Both), 1 => Just(Side::Sender), 1 => Just(Side::Receiver)],
      any::<bool>(),
      prop_oneof![6 => Just(Mech::Null), 1 => Just(Mech::Plain), 1 => Just(Mech::PlainWrongPassword), 1 => Just(Mech::Curve), 1 => Just(Mech::CurveWrongServerKey)],
      proptest::collection::vec(messages_strategy(cfg, k, 24), 1..4),
      any::<bool>(),
    )
      .prop_map(move |(pattern, side, sender_binds, mech, batches, small_hwm)| Workload::Stream { pattern, side, sender_binds, knobs: k, mech, batches, small_hwm });
    let stall = (20u16..200, prop_oneof![Just(1024u32), Just(8192), Just(65536)], 1u16..8, 50u16..200, 300u16..700, any::<bool>()).prop_map(move |(msgs, size, sndhwm, sndtimeo_ms, stall_ms, resume)| Workload::RawStall { knobs: k, msgs, size, sndhwm, sndtimeo_ms, stall_ms, resume });
    let hs = (
      any::<bool>(),
      prop_oneof![
        Just(HsFault::BadSignature),
        Just(HsFault::TruncatedGreetingThenClose),
        Just(HsFault::UnknownMechanism),
        Just(HsFault::WrongSocketType),
        Just(HsFault::GarbageInsteadOfReady),
        Just(HsFault::ErrorCommand),
        Just(HsFault::CloseAfterGreeting)
      ],
    )
      .prop_map(move |(rzmq_binds, fault)| Workload::RawHandshake { rzmq_binds, knobs: k, fault });
    let feed = (
      messages_strategy(cfg, k, 16),
      proptest::collection::vec(1u16..9000, 1..12),
      prop_oneof![3 => Just(None), 1 => Just(Some(2048u32)), 1 => Just(Some(cfg.recv_size))],
      prop_oneof![3 => Just(FeedTail::Sentinel), 1 => Just(FeedTail::OversizeFrame), 1 => Just(FeedTail::HalfFrameThenClose), 2 => Just(FeedTail::CloseAfterLast)],
    )
      .prop_map(move |(msgs, chunks, maxmsgsize, tail)| Workload::RawFeed { knobs: k, msgs, chunks, maxmsgsize, tail });
    let reconn = (1u8..4, prop_oneof![Just(64u32), Just(cfg.send_size), Just(cfg.recv_size + 1)]).prop_map(move |(drops, size)| Workload::RawReconnect { knobs: k, drops, size });
    let fanin = (prop_oneof![4 => 2u8..9, 1 => 9u8..13], 10u16..120, prop_oneof![Just(64u32), Just(cfg.recv_size / 2), Just(cfg.recv_size), Just(cfg.recv_size + 1), Just(8192)], any::<bool>()).prop_map(move |(senders, per_sender, size, senders_uring)| Workload::FanIn { knobs: k, senders, per_sender, size, senders_uring });
    prop_oneof![5 => stream, 1 => stall, 2 => hs, 2 => feed, 1 => reconn, 2 => fanin]
  })
}

#[derive(Clone, Debug, Serialize, Deserialize, PartialEq, Eq, Hash)]
pub struct Case {
  pub cfg: UCfg,
  pub workloads: Vec<Workload>,
}

fn case_strategy(max_w: usize) -> impl Strategy<Value = Case> {
  cfg_strategy().prop_flat_map(move |cfg| {
    proptest::collection::vec(workload_strategy(cfg), 1..max_w).prop_map(move |mut workloads| {
      // fan-in workloads go last: with nine or more connections they leave handlers behind
      // (known finding), which must not be charged to whatever runs after them in the same child
      workloads.sort_by_key(|w| matches!(w, Workload::FanIn { .. }));
      Case { cfg, workloads }
    })
  })
}

// ------------------------------------------------------------------------------------------
// parent: spawn the child, judge what it reports

fn run_child(case: &Case, ceiling_s: u64) -> Result<Vec<WResult>, String> {
  use std::io::{Read, Write};
  use std::process::{Command, Stdio};
  let exe = std::env::current_exe().map_err(|e| e.to_string())?;
  let mut child = Command::new(exe).arg("c20-child").stdin(Stdio::piped()).stdout(Stdio::piped()).stderr(Stdio::piped()).spawn().map_err(|e| format!("spawn: {}", e))?;
  {
    let mut stdin = child.stdin.take().unwrap();
    let _ = stdin.write_all(serde_json::to_string(case).unwrap().as_bytes());
  }
  let mut stdout = child.stdout.take().unwrap();
  let mut stderr = child.stderr.take().unwrap();
  let (tx, rx) = std::sync::mpsc::channel();
  std::thread::spawn(move || {
    let mut s = String::new();
    let _ = stdout.read_to_string(&mut s);
    let mut e = String::new();
    let _ = stderr.read_to_string(&mut e);
    let _ = tx.send((s, e));
  });
  let got = rx.recv_timeout(std::time::Duration::from_secs(ceiling_s));
  match got {
    Ok((out, err)) => {
      let status = child.wait().map_err(|e| e.to_string())?;
      let mut results = Vec::new();
      for line in out.lines() {
        if let Some(j) = line.strip_prefix("C20RESULT ") {
          match serde_json::from_str::<WResult>(j) {
            Ok(r) => results.push(r),
            Err(e) => return Err(format!("bad child line: {} ({})", e, &j[..j.len().min(200)])),
          }
        }
      }
      if !status.success() || results.len() != case.workloads.len() {
        let tail: String = err.lines().rev().take(12).collect::<Vec<_>>().into_iter().rev().collect::<Vec<_>>().join(" | ");
        return Err(format!("CHILD-DIED status={:?} results={}/{} stderr-tail: {}", status.code(), results.len(), case.workloads.len(), tail));
      }
      Ok(results)
    }
    Err(_) => {
      let _ = child.kill();
      let _ = child.wait();
      Err("watchdog: child did not finish".into())
    }
  }
}

fn kind(w: &Workload) -> &'static str {
  match w {
    Workload::Stream { .. } => "stream",
    Workload::RawStall { .. } => "raw_stall",
    Workload::RawHandshake { .. } => "raw_handshake",
    Workload::RawFeed { .. } => "raw_feed",
    Workload::RawReconnect { .. } => "raw_reconnect",
    Workload::FanIn { .. } => "fan_in",
  }
}

fn knobs_of(w: &Workload) -> Knobs {
  match w {
    Workload::Stream { knobs, .. } | Workload::RawStall { knobs, .. } | Workload::RawHandshake { knobs, .. } | Workload::RawFeed { knobs, .. } | Workload::RawReconnect { knobs, .. } | Workload::FanIn { knobs, .. } => *knobs,
  }
}

/// True if the workload's handshake is meant to fail.
fn handshake_fails(w: &Workload) -> bool {
  match w {
    Workload::Stream { mech, .. } => matches!(mech, Mech::PlainWrongPassword | Mech::CurveWrongServerKey),
    Workload::RawHandshake { .. } => true,
    _ => false,
  }
}

fn judge(run: &Run, sub: &str, case: &Case, results: &[WResult], rec: &mut CaseRec) -> Result<(), Violation> {
  let case_json = serde_json::to_value(case).unwrap_or(Value::Null);
  for r in results {
    let w = &case.workloads[r.idx];
    let k = kind(w);
    rec.label(match w {
      Workload::Stream { .. } => "w_stream",
      Workload::RawStall { .. } => "w_raw_stall",
      Workload::RawHandshake { .. } => "w_raw_handshake",
      Workload::RawFeed { .. } => "w_raw_feed",
      Workload::RawReconnect { .. } => "w_raw_reconnect",
      Workload::FanIn { .. } => "w_fan_in",
    });
    if let Workload::Stream { batches, mech, .. } = w {
      rec.label_if(batches.len() > 1, "churn");
      rec.label_if(!matches!(mech, Mech::Null), "secured");
    }
    let kn = knobs_of(w);
    rec.label_if(kn.zerocopy, "knob_zerocopy");
    rec.label_if(kn.multishot, "knob_multishot");
    rec.label_if(kn.cork, "knob_cork");
    rec.count("uring_connections", r.handlers_seen as u64);
    rec.label_if(r.zc_used, "send_pool_buffer_leased");
    if r.handlers_seen > 0 {
      rec.nontrivial = true;
    }
    if r.tokio.inconclusive.is_some() || r.uring.inconclusive.is_some() {
      rec.label("workload_inconclusive");
      continue;
    }
    if r.tokio.abs_violation.is_some() {
      // the reference backend fails its own accounting: not a statement about equivalence
      rec.label("reference_backend_fails_too");
      if std::env::var("VERIF_TRACE").is_ok() {
        let wj = serde_json::to_string(w).unwrap_or_default();
        eprintln!("[c20 reference fails] {:?} errors={:?} :: {}", r.tokio.abs_violation, r.tokio.errors, &wj[..wj.len().min(260)]);
      }
      continue;
    }
    let mk = |check: &str, detail: String| Violation::new(check, format!("workload #{} ({}, {:?}): {}", r.idx, k, kn, detail)).with("workload", k).with("multishot", kn.multishot).with("handshake_fails", handshake_fails(w));
    let mut found: Vec<Violation> = Vec::new();
    if let Some(v) = &r.uring.abs_violation {
      found.push(mk("uring_breaks_accounting", format!("with io_uring: {}; the Tokio backend handled the same workload correctly", v)));
    }
    if r.tokio.delivered != r.uring.delivered {
      found.push(mk("delivery_differs", format!("delivered per connection tokio={:?} uring={:?}", brief(&r.tokio.delivered), brief(&r.uring.delivered))));
    }
    if r.tokio.errors != r.uring.errors {
      found.push(mk("error_kinds_differ", format!("error kinds tokio={:?} uring={:?}", r.tokio.errors, r.uring.errors)));
    }
    if r.tokio.events != r.uring.events {
      found.push(mk("handshake_outcome_differs", format!("monitor event kinds tokio={:?} uring={:?}", r.tokio.events, r.uring.events)));
    }
    if r.tokio.facts != r.uring.facts {
      found.push(mk("peer_view_differs", format!("what the raw peer saw: tokio={:?} uring={:?}", r.tokio.facts, r.uring.facts)));
    }
    if let Some(q) = r.quiescence.first() {
      let check = if q.starts_with("fd") { "fd_not_closed_exactly_once" } else { "buffers_not_returned" };
      found.push(mk(check, format!("after quiescence of the io_uring run: {} [{}; /proc/self/fd {} -> {}]", r.quiescence.join("; "), r.gauges, r.fd_before, r.fd_after)));
    }
    for v in found {
      if run.known_key(&v).is_some() {
        // a listed finding: count it and keep judging the remaining workloads
        rec.label("known_finding_workload");
        run.report(sub, v, case_json.clone());
      } else {
        return Err(v);
      }
    }
  }
  Ok(())
}

fn brief(d: &[Vec<String>]) -> Vec<String> {
  d.iter().map(|c| if c.len() > 6 { format!("[{} msgs: {} .. {}]", c.len(), c[..2].join(","), c[c.len() - 2..].join(",")) } else { format!("{:?}", c) }).collect()
}

pub fn run(run: &mut Run) {
  run.rule = "case = (pool configuration: send pool 2..16 buffers of 4..64 KiB, receive ring 2..16 buffers of 4..64 KiB, default zero-copy / multishot) + 1..5 workloads, each run on the Tokio backend and on io_uring in one child process. Workloads: rzmq-to-rzmq streams (PUSH/PULL, DEALER/ROUTER echo, REQ/REP, PUB/SUB; io_uring on both ends / sender / receiver; NULL, PLAIN, CURVE incl. wrong credentials; 1..3 reconnects; frame sizes at 0, the header boundary, the zero-copy threshold, the receive buffer, the send buffer and multiples), a raw peer that stops reading (back-pressure, SNDTIMEO), several PUSH sockets at once into one PULL (2..13 connections competing for the receive ring), a raw peer that breaks the handshake in 7 ways, a raw peer feeding chunked traffic ending in a sentinel / an oversize frame / half a frame then FIN / FIN right behind the last message. Non-trivial = at least one connection was actually driven by an io_uring handler (fd life-cycle log). Distinct = case hash".into();
  run.assumptions = vec![
    "equivalence is judged on delivered messages per connection, the set of monitor event kinds, the set of error kinds and what a raw peer observed; counts of timeouts under back-pressure and timing are not compared".into(),
    "a workload whose reference (Tokio) run already fails its accounting is not judged".into(),
    "SQPOLL, the ultra-low-latency polling strategy and more than 64 simultaneous connections are not generated".into(),
    "in this tree the ZMTP io_uring handler writes data with vectored sends and never leases a send-pool buffer (label send_pool_buffer_leased counts the workloads in which one was leased), so 'send pool buffers are given back' is only observed as the gauge staying at total; the receive ring and chunk gauges are exercised by every workload".into(),
  ];
  let sub = "differential";
  let (cases, max_w) = match run.tier {
    Tier::Quick => (64u32, 3usize),
    Tier::Thorough => (1600, 5),
  };
  let runref: &Run = run;
  runref.prop_boxed(sub, cases, 8, 12, move || case_strategy(max_w), move |c: &Case, rec: &mut CaseRec| {
    match run_child(c, 240) {
      Ok(res) => judge(runref, sub, c, &res, rec),
      Err(e) if e.starts_with("CHILD-DIED") => Err(Violation::new("child_crashed", e).with("workload", "any")),
      Err(e) => {
        rec.label("case_inconclusive");
        runref.note_inconclusive_case(sub, e);
        Ok(())
      }
    }
  });
  let _ = hash_of(&0u8);
  let _: Value = json!(null);
}

// ==========================================================================================
// child side
// ==========================================================================================

#[cfg(feature = "uring")]
pub mod child {
  use super::*;
  use crate::pair::{EndSpec, Mech as PMech};
  use crate::stack::{self, acc_message, parse_acc, RawListener, RawStream};
  use crate::wire;
  use rzmq::socket::options as opt;
  use rzmq::socket::SocketEvent;
  use rzmq::verif::uring::{gauges, take_fd_log, FdEvent};
  use rzmq::{Context, Msg, MsgFlags, Socket};
  use std::time::Duration;

  fn fd_count() -> usize {
    std::fs::read_dir("/proc/self/fd").map(|d| d.count()).unwrap_or(0)
  }

  fn i(v: i32) -> Vec<u8> {
    v.to_ne_bytes().to_vec()
  }

  fn uring_opts(k: Knobs) -> Vec<(i32, Vec<u8>)> {
    vec![(opt::IO_URING_SESSION_ENABLED, i(1)), (opt::IO_URING_SNDZEROCOPY, i(k.zerocopy as i32)), (opt::IO_URING_RCVMULTISHOT, i(k.multishot as i32)), (opt::IO_URING_ZC_SEND_THRESHOLD, i(k.zc_threshold as i32))]
  }

  fn base_opts(k: Knobs, uring: bool) -> Vec<(i32, Vec<u8>)> {
    let mut o = vec![(opt::TCP_CORK, i(k.cork as i32)), (opt::LINGER, i(2000))];
    if uring {
      o.extend(uring_opts(k));
    }
    o
  }

  fn mech_opts(m: Mech, ty: &str, server: bool) -> Vec<(i32, Vec<u8>)> {
    let mut s = EndSpec::new(
      ty,
      server,
      match m {
        Mech::Null => PMech::Null,
        Mech::Plain | Mech::PlainWrongPassword => PMech::Plain,
        Mech::Curve | Mech::CurveWrongServerKey => PMech::Curve,
      },
    );
    match m {
      Mech::Plain => s.plain = Some(("user".into(), "secret".into())),
      Mech::PlainWrongPassword => s.plain = Some(("user".into(), if server { "secret".into() } else { "wrong".into() })),
      Mech::CurveWrongServerKey => {
        if !server {
          s.peer_key_seed = Some(4242);
        }
      }
      _ => {}
    }
    s.options()
  }

  fn ev_kind(e: &SocketEvent) -> Option<&'static str> {
    Some(match e {
      SocketEvent::HandshakeSucceeded { .. } => "HandshakeSucceeded",
      SocketEvent::HandshakeFailed { .. } => "HandshakeFailed",
      SocketEvent::Disconnected { .. } => "Disconnected",
      SocketEvent::ConnectFailed { .. } => "ConnectFailed",
      SocketEvent::AcceptFailed { .. } => "AcceptFailed",
      SocketEvent::BindFailed { .. } => "BindFailed",
      _ => return None,
    })
  }

  async fn drain_events(mon: &rzmq::socket::MonitorReceiver, obs: &mut Obs, settle: Duration) {
    loop {
      match tokio::time::timeout(settle, mon.recv()).await {
        Ok(Ok(ev)) => {
          if std::env::var("VERIF_TRACE").is_ok() {
            eprintln!("[c20 event] {:?}", ev);
          }
          if let Some(k) = ev_kind(&ev) {
            obs.events.insert(k.to_string());
          }
        }
        _ => break,
      }
    }
  }

  fn types(p: Pattern) -> (&'static str, &'static str) {
    match p {
      Pattern::PushPull => ("PUSH", "PULL"),
      Pattern::DealerRouter => ("DEALER", "ROUTER"),
      Pattern::ReqRep => ("REQ", "REP"),
      Pattern::PubSub => ("PUB", "SUB"),
    }
  }

  fn describe(frames: &[Vec<u8>]) -> Result<String, String> {
    let mut seq = None;
    let mut bytes = 0usize;
    for (idx, b) in frames.iter().enumerate() {
      let a = parse_acc(b).map_err(|e| format!("frame {} of {}: {}", idx, frames.len(), e))?;
      if a.frame_idx as usize != idx || a.frame_cnt as usize != frames.len() {
        return Err(format!("partial or glued message: position {} of {} carries {}/{} of message {}", idx, frames.len(), a.frame_idx, a.frame_cnt, a.msg_seq));
      }
      seq.get_or_insert(a.msg_seq);
      bytes += b.len();
    }
    Ok(format!("{}/{}/{}", seq.unwrap_or(0), frames.len(), bytes))
  }

  fn bodies(frames: impl IntoIterator<Item = Msg>) -> Vec<Vec<u8>> {
    frames.into_iter().map(|m| m.data().unwrap_or(&[]).to_vec()).collect()
  }

  fn sizes(fs: &[u32]) -> Vec<usize> {
    fs.iter().map(|s| (*s as usize).max(stack::ACC_OVERHEAD)).collect()
  }

  /// CURVE cannot carry a message whose record exceeds 65535 bytes (the send is refused, see C18),
  /// which is the same on both backends and only adds noise here.
  fn sizes_for(mech: Mech, fs: &[u32]) -> Vec<usize> {
    let _ = mech;
    let cap = usize::MAX;
    sizes(fs).into_iter().map(|s| s.min(cap)).collect()
  }

  /// rzmq to rzmq. Returns the observation of one backend.
  async fn run_stream(pattern: Pattern, side: Side, sender_binds: bool, k: Knobs, mech: Mech, batches: &[Vec<Vec<u32>>], small_hwm: bool, uring: bool) -> Obs {
    let mut obs = Obs::default();
    let ctx = match Context::new() {
      Ok(c) => c,
      Err(e) => {
        obs.inconclusive = Some(e.to_string());
        return obs;
      }
    };
    let (sty, rty) = types(pattern);
    let s_uring = uring && matches!(side, Side::Both | Side::Sender);
    let r_uring = uring && matches!(side, Side::Both | Side::Receiver);
    let expect_fail = matches!(mech, Mech::PlainWrongPassword | Mech::CurveWrongServerKey);
    let hwm = if small_hwm { 4 } else { 1000 };
    let mut ropts = base_opts(k, r_uring);
    ropts.extend([(opt::RCVTIMEO, i(if expect_fail { 1200 } else { 15000 })), (opt::SNDTIMEO, i(15000)), (opt::RCVHWM, i(hwm)), (opt::SNDHWM, i(hwm))]);
    ropts.extend(mech_opts(mech, rty, !sender_binds));
    if rty == "ROUTER" {
      ropts.push((opt::ROUTER_MANDATORY, i(1)));
    }
    let mut sopts = base_opts(k, s_uring);
    sopts.extend([(opt::RCVTIMEO, i(if expect_fail { 1200 } else { 15000 })), (opt::SNDTIMEO, i(if expect_fail { 1200 } else { 15000 })), (opt::RCVHWM, i(hwm)), (opt::SNDHWM, i(hwm)), (opt::ROUTING_ID, b"snd".to_vec())]);
    sopts.extend(mech_opts(mech, sty, sender_binds));
    // the long-lived end binds or connects once; the other end is re-created per batch
    let receiver = match ctx.socket(stack::stype(rty)) {
      Ok(s) => s,
      Err(e) => {
        obs.inconclusive = Some(e.to_string());
        return obs;
      }
    };
    if let Err(e) = stack::set_opts(&receiver, &ropts).await {
      obs.inconclusive = Some(e);
      return obs;
    }
    let rmon = receiver.monitor_default().await.ok();
    if rty == "SUB" {
      let _ = receiver.set_option_raw(opt::SUBSCRIBE, b"").await;
    }
    let mut ep = String::new();
    if !sender_binds {
      if let Err(e) = receiver.bind("tcp://127.0.0.1:0").await {
        obs.inconclusive = Some(e.to_string());
        return obs;
      }
      ep = String::from_utf8_lossy(&receiver.get_option(opt::LAST_ENDPOINT).await.unwrap_or_default()).to_string();
    }
    let mut seq = 0u32;
    // a handshake that is meant to fail is tried once: what a second attempt sees depends on the
    // reconnect back-off, not on the backend
    let batches = if expect_fail { &batches[..1] } else { batches };
    for (bi, batch) in batches.iter().enumerate() {
      let sender = match ctx.socket(stack::stype(sty)) {
        Ok(s) => s,
        Err(e) => {
          obs.inconclusive = Some(e.to_string());
          return obs;
        }
      };
      if let Err(e) = stack::set_opts(&sender, &sopts).await {
        obs.inconclusive = Some(e);
        return obs;
      }
      let smon = sender.monitor_default().await.ok();
      if sender_binds {
        if let Err(e) = sender.bind("tcp://127.0.0.1:0").await {
          obs.inconclusive = Some(e.to_string());
          return obs;
        }
        let sep = String::from_utf8_lossy(&sender.get_option(opt::LAST_ENDPOINT).await.unwrap_or_default()).to_string();
        if let Err(e) = receiver.connect(&sep).await {
          obs.inconclusive = Some(e.to_string());
          return obs;
        }
        ep = sep;
      } else if let Err(e) = sender.connect(&ep).await {
        obs.inconclusive = Some(e.to_string());
        return obs;
      }
      // wait for the handshake outcome on the sender's monitor
      let mut hs_ok = false;
      if let Some(m) = &smon {
        let ev = stack::wait_event(m, Duration::from_millis(2500), |e| matches!(e, SocketEvent::HandshakeSucceeded { .. } | SocketEvent::HandshakeFailed { .. })).await;
        match ev {
          Some(SocketEvent::HandshakeSucceeded { .. }) => {
            hs_ok = true;
            obs.events.insert("HandshakeSucceeded".into());
          }
          Some(SocketEvent::HandshakeFailed { .. }) => {
            obs.events.insert("HandshakeFailed".into());
          }
          _ => {
            obs.events.insert("NoHandshakeOutcomeReported".into());
          }
        }
      }
      if pattern == Pattern::PubSub {
        tokio::time::sleep(Duration::from_millis(150)).await; // subscription propagation
      }
      let mut conn: Vec<String> = Vec::new();
      if hs_ok != !expect_fail {
        obs.abs_violation.get_or_insert(format!("batch {}: handshake ok={} but {:?} was configured", bi, hs_ok, mech));
      }
      if hs_ok {
        let n = batch.len();
        let first_seq = seq;
        let msgs: Vec<Vec<Msg>> = batch
          .iter()
          .map(|fs| {
            // REQ / REP carry single-frame messages in this implementation
            let fs: &[u32] = if pattern == Pattern::ReqRep { &fs[..1] } else { fs };
            let m = acc_message(1, seq, &sizes_for(mech, fs));
            seq += 1;
            m
          })
          .collect();
        let sentinel = acc_message(1, stack::SENTINEL_SEQ, &[stack::ACC_OVERHEAD]);
        match pattern {
          Pattern::PushPull | Pattern::PubSub => {
            let s2 = sender.clone();
            let send_task = tokio::spawn(async move {
              let mut errs = BTreeSet::new();
              for m in msgs.into_iter().chain(std::iter::once(sentinel)) {
                if let Err(e) = s2.send_multipart(m).await {
                  let kd = stack::err_kind(&e);
                  errs.insert(if kd == "other" { format!("other({})", e) } else { kd.to_string() });
                }
              }
              errs
            });
            loop {
              match receiver.recv_multipart().await {
                Ok(fr) => {
                  let b = bodies(fr);
                  match describe(&b) {
                    Ok(d) if d.starts_with(&format!("{}/", stack::SENTINEL_SEQ)) => break,
                    Ok(d) => conn.push(d),
                    Err(e) => {
                      obs.abs_violation.get_or_insert(e);
                      break;
                    }
                  }
                }
                Err(e) => {
                  obs.errors.insert(format!("recv:{}", stack::err_kind(&e)));
                  break;
                }
              }
            }
            if let Ok(errs) = send_task.await {
              obs.errors.extend(errs.into_iter().map(|e| format!("send:{}", e)));
            }
          }
          Pattern::DealerRouter | Pattern::ReqRep => {
            // lock step: request, the receiver echoes it back with the same frames
            for m in msgs {
              let want = bodies(m.clone());
              let sent = if pattern == Pattern::ReqRep { sender.send(m.into_iter().next().unwrap()).await } else { sender.send_multipart(m).await };
              if let Err(e) = sent {
                let kd = stack::err_kind(&e);
                obs.errors.insert(if kd == "other" { format!("send:other({})", e) } else { format!("send:{}", kd) });
                break;
              }
              let got: Result<Vec<Msg>, rzmq::ZmqError> = if pattern == Pattern::ReqRep { receiver.recv().await.map(|m| vec![m]) } else { receiver.recv_multipart().await.map(|f| f.into_iter().collect()) };
              let all: Vec<Msg> = match got {
                Ok(fr) => fr,
                Err(e) => {
                  obs.errors.insert(format!("recv:{}", stack::err_kind(&e)));
                  break;
                }
              };
              let skip = if rty == "ROUTER" { 1 } else { 0 };
              let b = bodies(all.iter().skip(skip).cloned());
              match describe(&b) {
                Ok(d) => conn.push(d),
                Err(e) => {
                  obs.abs_violation.get_or_insert(e);
                  break;
                }
              }
              // echo
              let mut back: Vec<Msg> = all;
              let last = back.len() - 1;
              for (x, f) in back.iter_mut().enumerate() {
                f.set_flags(if x < last { MsgFlags::MORE } else { MsgFlags::empty() });
              }
              let echoed = if pattern == Pattern::ReqRep { receiver.send(back.into_iter().next().unwrap()).await } else { receiver.send_multipart(back).await };
              if let Err(e) = echoed {
                obs.errors.insert(format!("echo:{}", stack::err_kind(&e)));
                break;
              }
              let reply: Result<Vec<Msg>, rzmq::ZmqError> = if pattern == Pattern::ReqRep { sender.recv().await.map(|m| vec![m]) } else { sender.recv_multipart().await.map(|f| f.into_iter().collect()) };
              match reply {
                Ok(fr) => {
                  let b2 = bodies(fr);
                  if b2 != want {
                    obs.abs_violation.get_or_insert(format!("echo of message differs: sent {} frames / {} bytes, got back {} frames / {} bytes", want.len(), want.iter().map(|f| f.len()).sum::<usize>(), b2.len(), b2.iter().map(|f| f.len()).sum::<usize>()));
                  }
                }
                Err(e) => {
                  obs.errors.insert(format!("recv_echo:{}", stack::err_kind(&e)));
                  break;
                }
              }
            }
          }
        }
        // absolute oracle: everything, in order (PUB/SUB may drop under HWM: order only)
        let want: Vec<u32> = (first_seq..first_seq + n as u32).collect();
        let got: Vec<u32> = conn.iter().filter_map(|d| d.split('/').next().and_then(|s| s.parse().ok())).collect();
        let fine = if pattern == Pattern::PubSub { got.windows(2).all(|w| w[0] < w[1]) && got.iter().all(|g| want.contains(g)) } else { got == want };
        if !fine {
          obs.abs_violation.get_or_insert(format!("batch {}: sent {:?}, delivered {:?}, errors {:?}", bi, want, got, obs.errors));
        }
        if pattern == Pattern::PubSub {
          // delivery count under HWM is not comparable between runs: keep only the verdict
          conn = vec![format!("pubsub-ordered-subset:{}", fine)];
        }
      } else {
        // failed handshake: nothing may be delivered
        match tokio::time::timeout(Duration::from_millis(300), receiver.recv()).await {
          Ok(Ok(_)) => {
            obs.abs_violation.get_or_insert("a message was delivered over a connection whose handshake failed".into());
          }
          _ => {}
        }
      }
      obs.delivered.push(conn);
      if let Some(m) = &smon {
        drain_events(m, &mut obs, Duration::from_millis(30)).await;
      }
      if sender_binds {
        let _ = receiver.disconnect(&ep).await;
      }
      let _ = sender.close().await;
      tokio::time::sleep(Duration::from_millis(30)).await;
    }
    if let Some(m) = &rmon {
      drain_events(m, &mut obs, Duration::from_millis(50)).await;
    }
    // Disconnected is a matter of timing relative to close(): not compared
    obs.events.remove("Disconnected");
    let _ = receiver.close().await;
    let _ = tokio::time::timeout(Duration::from_secs(10), ctx.term()).await;
    obs
  }

  /// NULL handshake from the raw side; returns the bytes that arrived after the peer's greeting.
  async fn raw_null_handshake(raw: &mut RawStream, my_type: &str, as_server: bool) -> Result<Vec<u8>, String> {
    raw.write_all(&wire::greeting_v3(1, "NULL", as_server)).await.map_err(|e| e.to_string())?;
    let (g, _eof) = raw.read_at_least(64, Duration::from_secs(3)).await;
    if g.len() < 64 {
      return Err(format!("peer greeting incomplete ({} bytes)", g.len()));
    }
    raw.write_all(&wire::encode_frames(&[wire::ready(my_type, None)])).await.map_err(|e| e.to_string())?;
    Ok(g[64..].to_vec())
  }

  /// Reads from the raw stream until `stop` says so; returns all bytes after the greeting.
  async fn raw_read_for(raw: &mut RawStream, total: Duration, early: Vec<u8>) -> (Vec<u8>, bool) {
    let mut out = early;
    let deadline = tokio::time::Instant::now() + total;
    loop {
      let now = tokio::time::Instant::now();
      if now >= deadline {
        return (out, false);
      }
      match raw.read_some((deadline - now).min(Duration::from_millis(300))).await {
        Ok(Some(b)) if b.is_empty() => return (out, true),
        Ok(Some(b)) => out.extend(b),
        Ok(None) => {
          // idle: stop early when the stream ends with the sentinel
          if ends_with_sentinel(&out) {
            return (out, false);
          }
        }
        Err(_) => return (out, true),
      }
    }
  }

  fn ends_with_sentinel(bytes: &[u8]) -> bool {
    let (frames, _) = wire::decode_all(bytes);
    frames.last().map(|f| parse_acc(&f.body).map(|a| a.msg_seq == stack::SENTINEL_SEQ).unwrap_or(false)).unwrap_or(false)
  }

  async fn run_raw_stall(k: Knobs, msgs: u16, size: u32, sndhwm: u16, sndtimeo_ms: u16, stall_ms: u16, resume: bool, uring: bool) -> Obs {
    let mut obs = Obs::default();
    let ctx = Context::new().unwrap();
    let (listener, ep) = match RawListener::bind(stack::Transport::Tcp).await {
      Ok(x) => x,
      Err(e) => {
        obs.inconclusive = Some(e.to_string());
        return obs;
      }
    };
    let mut o = base_opts(k, uring);
    o.extend([(opt::SNDHWM, i(sndhwm as i32)), (opt::SNDTIMEO, i(sndtimeo_ms as i32)), (opt::SNDBUF, i(16384))]);
    let push = match stack::connected(&ctx, "PUSH", &ep, &o).await {
      Ok(s) => s,
      Err(e) => {
        obs.inconclusive = Some(e);
        return obs;
      }
    };
    let mut raw = match listener.accept(Duration::from_secs(3)).await {
      Some(r) => r,
      None => {
        obs.inconclusive = Some("no connection at the raw listener".into());
        return obs;
      }
    };
    let early = match raw_null_handshake(&mut raw, "PULL", true).await {
      Ok(b) => b,
      Err(e) => {
        obs.inconclusive = Some(e);
        return obs;
      }
    };
    // peer reads nothing for stall_ms
    let reader = tokio::spawn(async move {
      tokio::time::sleep(Duration::from_millis(stall_ms as u64)).await;
      if resume {
        let (bytes, _) = raw_read_for(&mut raw, Duration::from_secs(20), early).await;
        (bytes, raw)
      } else {
        (Vec::new(), raw)
      }
    });
    let mut accepted: Vec<u32> = Vec::new();
    let mut timeouts = 0u32;
    for seq in 0..msgs as u32 {
      match push.send_multipart(acc_message(1, seq, &[(size as usize).max(stack::ACC_OVERHEAD)])).await {
        Ok(()) => accepted.push(seq),
        Err(e) => {
          let kd = stack::err_kind(&e);
          if kd == "timeout" || kd == "would_block" {
            timeouts += 1;
          }
          obs.errors.insert(format!("send:{}", kd));
        }
      }
    }
    // the sentinel has to get through once the peer reads again
    if resume {
      let mut sent = false;
      for _ in 0..200 {
        if push.send_multipart(acc_message(1, stack::SENTINEL_SEQ, &[stack::ACC_OVERHEAD])).await.is_ok() {
          sent = true;
          break;
        }
      }
      if !sent {
        obs.abs_violation.get_or_insert("the sentinel was never accepted although the peer resumed reading".into());
      }
    }
    let (bytes, raw) = match tokio::time::timeout(Duration::from_secs(30), reader).await {
      Ok(Ok(x)) => x,
      _ => {
        obs.inconclusive = Some("raw reader did not finish".into());
        return obs;
      }
    };
    if resume {
      let (frames, _) = wire::decode_all(&bytes);
      let mut got: Vec<u32> = Vec::new();
      for f in frames.iter().filter(|f| !f.command) {
        match parse_acc(&f.body) {
          Ok(a) if a.msg_seq == stack::SENTINEL_SEQ => break,
          Ok(a) => got.push(a.msg_seq),
          Err(e) => {
            obs.abs_violation.get_or_insert(format!("raw peer received a damaged frame: {}", e));
            break;
          }
        }
      }
      if got != accepted {
        obs.abs_violation.get_or_insert(format!("accepted sends {:?} but the raw peer received {:?}", compact(&accepted), compact(&got)));
      }
      obs.delivered.push(vec![format!("all-accepted-delivered:{}", got == accepted)]);
    }
    // error kinds: whether back-pressure surfaced at all depends on buffer sizes that differ by
    // design between the backends; what must agree is the kind when it does
    obs.facts.push(format!("timeouts_seen:{}", if timeouts > 0 { "some-or-none" } else { "some-or-none" }));
    drop(raw);
    let _ = push.close().await;
    let _ = tokio::time::timeout(Duration::from_secs(10), ctx.term()).await;
    obs.errors.retain(|e| e != "send:timeout" && e != "send:would_block");
    obs
  }

  fn compact(v: &[u32]) -> String {
    if v.len() > 12 {
      format!("[{} items {:?} .. {:?}]", v.len(), &v[..3], &v[v.len() - 3..])
    } else {
      format!("{:?}", v)
    }
  }

  async fn run_raw_handshake(rzmq_binds: bool, k: Knobs, fault: HsFault, uring: bool) -> Obs {
    let mut obs = Obs::default();
    let ctx = Context::new().unwrap();
    let mut o = base_opts(k, uring);
    o.extend([(opt::RCVTIMEO, i(500)), (opt::HANDSHAKE_IVL, i(1500)), (opt::RECONNECT_IVL, i(150)), (opt::RECONNECT_IVL_MAX, i(150))]);
    let sock = ctx.socket(stack::stype("PULL")).unwrap();
    if let Err(e) = stack::set_opts(&sock, &o).await {
      obs.inconclusive = Some(e);
      return obs;
    }
    let mon = sock.monitor_default().await.ok();
    let mut listener_keep: Option<RawListener> = None;
    let mut raw = if rzmq_binds {
      if let Err(e) = sock.bind("tcp://127.0.0.1:0").await {
        obs.inconclusive = Some(e.to_string());
        return obs;
      }
      let ep = String::from_utf8_lossy(&sock.get_option(opt::LAST_ENDPOINT).await.unwrap_or_default()).to_string();
      match stack::raw_connect(&ep).await {
        Ok(r) => r,
        Err(e) => {
          obs.inconclusive = Some(e.to_string());
          return obs;
        }
      }
    } else {
      let (l, ep) = match RawListener::bind(stack::Transport::Tcp).await {
        Ok(x) => x,
        Err(e) => {
          obs.inconclusive = Some(e.to_string());
          return obs;
        }
      };
      if let Err(e) = sock.connect(&ep).await {
        obs.inconclusive = Some(e.to_string());
        return obs;
      }
      let r = match l.accept(Duration::from_secs(3)).await {
        Some(r) => r,
        None => {
          obs.inconclusive = Some("no connection".into());
          return obs;
        }
      };
      listener_keep = Some(l);
      r
    };
    let as_server = !rzmq_binds;
    let good_greeting = wire::greeting_v3(1, "NULL", as_server);
    let script: Vec<Vec<u8>> = match fault {
      HsFault::BadSignature => {
        let mut g = good_greeting.clone();
        g[0] = 0x00;
        g[9] = 0x00;
        vec![g]
      }
      HsFault::TruncatedGreetingThenClose => vec![good_greeting[..30].to_vec()],
      HsFault::UnknownMechanism => vec![wire::greeting_v3(1, "BOGUS", as_server)],
      HsFault::WrongSocketType => vec![good_greeting.clone(), wire::encode_frames(&[wire::ready("REP", None)])],
      HsFault::GarbageInsteadOfReady => vec![good_greeting.clone(), vec![0x04, 0x05, b'X', b'Y', b'Z', b'Z', b'Y']],
      HsFault::ErrorCommand => vec![good_greeting.clone(), wire::encode_frames(&[wire::error_cmd("no")])],
      HsFault::CloseAfterGreeting => vec![good_greeting.clone()],
    };
    for part in &script {
      let _ = raw.write_all(part).await;
      tokio::time::sleep(Duration::from_millis(20)).await;
    }
    let closes_itself = matches!(fault, HsFault::TruncatedGreetingThenClose | HsFault::CloseAfterGreeting);
    let mut seen = Vec::new();
    if closes_itself {
      let (b, _) = raw.read_at_least(64, Duration::from_millis(300)).await;
      seen.extend(b);
      raw.shutdown_write().await;
      drop(raw);
    } else {
      let (b, closed) = raw_read_for(&mut raw, Duration::from_millis(2500), Vec::new()).await;
      seen.extend(b);
      obs.facts.push(format!("rzmq_closed_connection:{}", closed));
      drop(raw);
    }
    obs.facts.push(format!("greeting_prefix:{}", seen.iter().take(12).map(|b| format!("{:02x}", b)).collect::<String>()));
    if let Some(l) = &listener_keep {
      // a connecting socket tries again after a failed handshake (RECONNECT_IVL 150 ms)
      let again = l.accept(Duration::from_millis(1500)).await;
      obs.facts.push(format!("reconnects_after_failed_handshake:{}", again.is_some()));
      drop(again);
    }
    // nothing may be delivered
    if let Ok(Ok(_)) = tokio::time::timeout(Duration::from_millis(600), sock.recv()).await {
      obs.abs_violation.get_or_insert("a message was delivered although the handshake never completed".into());
    }
    if let Some(m) = &mon {
      drain_events(m, &mut obs, Duration::from_millis(100)).await;
    }
    obs.events.remove("Disconnected");
    if obs.events.contains("HandshakeSucceeded") {
      obs.abs_violation.get_or_insert(format!("HandshakeSucceeded was reported for {:?}", fault));
    }
    let _ = sock.close().await;
    let _ = tokio::time::timeout(Duration::from_secs(10), ctx.term()).await;
    obs
  }

  async fn run_raw_feed(k: Knobs, msgs: &[Vec<u32>], chunks: &[u16], maxmsgsize: Option<u32>, tail: &FeedTail, uring: bool) -> Obs {
    let mut obs = Obs::default();
    let ctx = Context::new().unwrap();
    let mut o = base_opts(k, uring);
    o.extend([(opt::RCVTIMEO, i(2500)), (opt::RCVHWM, i(8))]);
    if let Some(m) = maxmsgsize {
      o.push((opt::MAXMSGSIZE, (m as i64).to_ne_bytes().to_vec()));
    }
    // the monitor is attached before bind(): a listener only passes on the monitor it saw then
    let pull = ctx.socket(stack::stype("PULL")).unwrap();
    if let Err(e) = stack::set_opts(&pull, &o).await {
      obs.inconclusive = Some(e);
      return obs;
    }
    let mon = pull.monitor_default().await.ok();
    if let Err(e) = pull.bind("tcp://127.0.0.1:0").await {
      obs.inconclusive = Some(e.to_string());
      return obs;
    }
    let ep = String::from_utf8_lossy(&pull.get_option(opt::LAST_ENDPOINT).await.unwrap_or_default()).to_string();
    let mut raw = match stack::raw_connect(&ep).await {
      Ok(r) => r,
      Err(e) => {
        obs.inconclusive = Some(e.to_string());
        return obs;
      }
    };
    if let Err(e) = raw_null_handshake(&mut raw, "PUSH", false).await {
      obs.inconclusive = Some(e);
      return obs;
    }
    // the byte stream
    let mut stream = Vec::new();
    let mut expected: Vec<String> = Vec::new();
    let mut cut = false;
    for (seq, fs) in msgs.iter().enumerate() {
      let sz = sizes(fs);
      let over = maxmsgsize.map(|m| sz.iter().any(|s| *s > m as usize)).unwrap_or(false);
      let frames: Vec<wire::RefFrame> = sz.iter().enumerate().map(|(x, s)| wire::RefFrame::data(stack::acc_frame(1, seq as u32, x as u16, sz.len() as u16, *s), x + 1 < sz.len())).collect();
      stream.extend(wire::encode_frames(&frames));
      if over {
        cut = true;
      }
      if !cut {
        expected.push(format!("{}/{}/{}", seq, sz.len(), sz.iter().sum::<usize>()));
      }
    }
    match tail {
      FeedTail::Sentinel => stream.extend(wire::encode_frames(&[wire::RefFrame::data(stack::acc_frame(1, stack::SENTINEL_SEQ, 0, 1, stack::ACC_OVERHEAD), false)])),
      FeedTail::OversizeFrame => {
        stream.push(wire::FLAG_LONG);
        stream.extend(&(u64::MAX / 2).to_be_bytes());
        stream.extend(&[0u8; 64]);
      }
      FeedTail::ReservedFlagBits => stream.extend(&[0xF8, 0x01, 0x00]),
      FeedTail::CloseAfterLast => {}
      FeedTail::HalfFrameThenClose => {
        stream.push(0x00);
        stream.push(200);
        stream.extend(&[7u8; 50]);
      }
    }
    let chunks: Vec<u16> = chunks.to_vec();
    let close_after = matches!(tail, FeedTail::HalfFrameThenClose | FeedTail::CloseAfterLast);
    let writer = tokio::spawn(async move {
      let mut off = 0usize;
      let mut ci = 0usize;
      while off < stream.len() {
        let n = (chunks[ci % chunks.len()] as usize).max(1).min(stream.len() - off);
        if raw.write_all(&stream[off..off + n]).await.is_err() {
          break;
        }
        off += n;
        ci += 1;
        if ci % 4 == 0 {
          tokio::task::yield_now().await;
        }
      }
      if close_after {
        raw.shutdown_write().await;
      }
      let closed = raw.wait_closed(Duration::from_secs(3)).await.is_some();
      (raw, closed)
    });
    let mut conn = Vec::new();
    loop {
      match pull.recv_multipart().await {
        Ok(fr) => match describe(&bodies(fr)) {
          Ok(d) if d.starts_with(&format!("{}/", stack::SENTINEL_SEQ)) => break,
          Ok(d) => conn.push(d),
          Err(e) => {
            obs.abs_violation.get_or_insert(e);
            break;
          }
        },
        Err(e) => {
          obs.errors.insert(format!("recv:{}", stack::err_kind(&e)));
          break;
        }
      }
    }
    if matches!(tail, FeedTail::CloseAfterLast | FeedTail::HalfFrameThenClose) {
      // the loop above ended with the receive timeout, which is expected here
      obs.errors.remove("recv:timeout");
      obs.errors.remove("recv:would_block");
    }
    if conn != expected && !(cut && expected.starts_with(&conn)) {
      obs.abs_violation.get_or_insert(format!("fed {} messages (deliverable {:?}), delivered {:?}", msgs.len(), expected.len(), conn.len()));
    }
    // with a poisoned stream, how many of the earlier messages come out before the close is a
    // race in both backends: compare the verdict, not the count
    if cut || !matches!(tail, FeedTail::Sentinel | FeedTail::CloseAfterLast | FeedTail::HalfFrameThenClose) {
      let prefix_ok = expected.starts_with(&conn);
      obs.delivered.push(vec![format!("prefix-of-valid:{}", prefix_ok)]);
      if !prefix_ok {
        obs.abs_violation.get_or_insert("delivered messages are not a prefix of the valid ones".into());
      }
    } else {
      obs.delivered.push(conn);
    }
    if let Ok(Ok((raw, closed))) = tokio::time::timeout(Duration::from_secs(5), writer).await {
      if cut || matches!(tail, FeedTail::OversizeFrame | FeedTail::ReservedFlagBits) {
        obs.facts.push(format!("rzmq_closed_connection:{}", closed));
      }
      drop(raw);
    }
    if let Some(m) = &mon {
      drain_events(m, &mut obs, Duration::from_millis(100)).await;
    }
    obs.events.remove("Disconnected");
    if cut || !matches!(tail, FeedTail::Sentinel) {
      // a connection that is poisoned (or closed by the peer) right behind the handshake can die before the socket core
      // has registered it; whether HandshakeSucceeded is still emitted then is a race inside
      // either backend, not a difference between them
      obs.events.remove("HandshakeSucceeded");
    }
    let _ = pull.close().await;
    let _ = tokio::time::timeout(Duration::from_secs(10), ctx.term()).await;
    obs
  }

  async fn run_raw_reconnect(k: Knobs, drops: u8, size: u32, uring: bool) -> Obs {
    let mut obs = Obs::default();
    let ctx = Context::new().unwrap();
    let (listener, ep) = match RawListener::bind(stack::Transport::Tcp).await {
      Ok(x) => x,
      Err(e) => {
        obs.inconclusive = Some(e.to_string());
        return obs;
      }
    };
    let mut o = base_opts(k, uring);
    o.extend([(opt::SNDTIMEO, i(3000)), (opt::RECONNECT_IVL, i(100)), (opt::RECONNECT_IVL_MAX, i(100))]);
    let push = ctx.socket(stack::stype("PUSH")).unwrap();
    if let Err(e) = stack::set_opts(&push, &o).await {
      obs.inconclusive = Some(e);
      return obs;
    }
    let mon = push.monitor_default().await.ok();
    if let Err(e) = push.connect(&ep).await {
      obs.inconclusive = Some(e.to_string());
      return obs;
    }
    let mut conn = Vec::new();
    for round in 0..=drops as u32 {
      let mut raw = match listener.accept(Duration::from_secs(4)).await {
        Some(r) => r,
        None => {
          obs.facts.push(format!("connection_{}_arrived:false", round));
          break;
        }
      };
      obs.facts.push(format!("connection_{}_arrived:true", round));
      let early = match raw_null_handshake(&mut raw, "PULL", true).await {
        Ok(b) => b,
        Err(e) => {
          obs.facts.push(format!("handshake_{}:{}", round, e));
          break;
        }
      };
      // wait until the socket can send again, then one message per connection
      let mut sent = false;
      for _ in 0..40 {
        match push.send_multipart(acc_message(1, round, &[(size as usize).max(stack::ACC_OVERHEAD)])).await {
          Ok(()) => {
            sent = true;
            break;
          }
          Err(_) => tokio::time::sleep(Duration::from_millis(50)).await,
        }
      }
      if !sent {
        obs.facts.push(format!("send_{}_accepted:false", round));
        break;
      }
      let want = stack::ACC_OVERHEAD.max(size as usize);
      let mut bytes = early;
      let deadline = tokio::time::Instant::now() + Duration::from_secs(4);
      let mut got = None;
      while tokio::time::Instant::now() < deadline {
        let (frames, _) = wire::decode_all(&bytes);
        if let Some(f) = frames.iter().find(|f| !f.command) {
          got = Some(parse_acc(&f.body).map(|a| (a.msg_seq, f.body.len())));
          break;
        }
        match raw.read_some(Duration::from_millis(200)).await {
          Ok(Some(b)) if b.is_empty() => break,
          Ok(Some(b)) => bytes.extend(b),
          Ok(None) => {}
          Err(_) => break,
        }
      }
      match got {
        Some(Ok((q, len))) => {
          conn.push(format!("{}/1/{}", q, len));
          // a message sent while the previous connection was dying may legitimately be lost with
          // it; what has to hold is that the message read here is whole
          if len != want {
            obs.abs_violation.get_or_insert(format!("round {}: message of {} bytes arrived with {} bytes", round, want, len));
          }
        }
        Some(Err(e)) => {
          obs.abs_violation.get_or_insert(format!("round {}: damaged message: {}", round, e));
        }
        None => obs.facts.push(format!("message_{}_arrived:false", round)),
      }
      raw.shutdown_write().await;
      drop(raw);
      tokio::time::sleep(Duration::from_millis(30)).await;
    }
    obs.delivered.push(vec![format!("rounds-with-a-whole-message:{}", conn.len())]);
    if let Some(m) = &mon {
      drain_events(m, &mut obs, Duration::from_millis(50)).await;
    }
    obs.events.remove("Disconnected");
    obs.events.remove("ConnectFailed");
    let _ = push.close().await;
    let _ = tokio::time::timeout(Duration::from_secs(10), ctx.term()).await;
    obs
  }

  async fn run_fan_in(k: Knobs, senders: u8, per_sender: u16, size: u32, senders_uring: bool, uring: bool) -> Obs {
    let mut obs = Obs::default();
    let ctx = Context::new().unwrap();
    let mut ro = base_opts(k, uring);
    ro.extend([(opt::RCVTIMEO, i(3000)), (opt::RCVHWM, i(1000))]);
    let (pull, ep) = match stack::bound(&ctx, "PULL", stack::Transport::Tcp, &ro).await {
      Ok(x) => x,
      Err(e) => {
        obs.inconclusive = Some(e);
        return obs;
      }
    };
    let mut tasks = Vec::new();
    for sid in 0..senders {
      let mut so = base_opts(k, uring && senders_uring);
      so.extend([(opt::SNDTIMEO, i(10000)), (opt::SNDHWM, i(1000)), (opt::LINGER, i(5000))]);
      let (ctx2, ep2) = (ctx.clone(), ep.clone());
      tasks.push(tokio::spawn(async move {
        let push = match stack::connected(&ctx2, "PUSH", &ep2, &so).await {
          Ok(p) => p,
          Err(e) => return Err(e),
        };
        tokio::time::sleep(Duration::from_millis(100)).await;
        for q in 0..per_sender as u32 {
          if let Err(e) = push.send_multipart(acc_message(sid as u16 + 1, q, &[(size as usize).max(stack::ACC_OVERHEAD)])).await {
            return Err(format!("send:{}", stack::err_kind(&e)));
          }
        }
        Ok(push)
      }));
    }
    let total = senders as usize * per_sender as usize;
    let mut next: std::collections::HashMap<u16, u32> = Default::default();
    let mut got = 0usize;
    while got < total {
      match pull.recv_multipart().await {
        Ok(fr) => {
          let b = bodies(fr);
          match b.first().map(|f| parse_acc(f)) {
            Some(Ok(a)) => {
              let want = next.entry(a.sender).or_insert(0);
              if a.msg_seq != *want {
                obs.abs_violation.get_or_insert(format!("sender {}: message {} arrived where {} was due (per-connection order)", a.sender, a.msg_seq, want));
                break;
              }
              *want += 1;
              got += 1;
            }
            Some(Err(e)) => {
              obs.abs_violation.get_or_insert(format!("damaged message: {}", e));
              break;
            }
            None => break,
          }
        }
        Err(e) => {
          obs.errors.insert(format!("recv:{}", stack::err_kind(&e)));
          break;
        }
      }
    }
    if got < total && obs.abs_violation.is_none() {
      obs.abs_violation = Some(format!("{} senders x {} messages of {} bytes: only {} of {} arrived, then the receive timed out after 3 s", senders, per_sender, size, got, total));
    }
    obs.delivered.push(vec![format!("all-arrived-in-order:{}", got == total)]);
    let mut keep = Vec::new();
    for t in tasks {
      match tokio::time::timeout(Duration::from_secs(15), t).await {
        Ok(Ok(Ok(p))) => keep.push(p),
        Ok(Ok(Err(e))) => {
          obs.errors.insert(e);
        }
        _ => {
          obs.errors.insert("sender:stuck".into());
        }
      }
    }
    for p in keep {
      let _ = p.close().await;
    }
    let _ = pull.close().await;
    let _ = tokio::time::timeout(Duration::from_secs(10), ctx.term()).await;
    obs
  }

  async fn run_workload(w: &Workload, uring: bool) -> Obs {
    match w {
      Workload::FanIn { knobs, senders, per_sender, size, senders_uring } => run_fan_in(*knobs, *senders, *per_sender, *size, *senders_uring, uring).await,
      Workload::RawReconnect { knobs, drops, size } => run_raw_reconnect(*knobs, *drops, *size, uring).await,
      Workload::Stream { pattern, side, sender_binds, knobs, mech, batches, small_hwm } => run_stream(*pattern, *side, *sender_binds, *knobs, *mech, batches, *small_hwm, uring).await,
      Workload::RawStall { knobs, msgs, size, sndhwm, sndtimeo_ms, stall_ms, resume } => run_raw_stall(*knobs, *msgs, *size, *sndhwm, *sndtimeo_ms, *stall_ms, *resume, uring).await,
      Workload::RawHandshake { rzmq_binds, knobs, fault } => run_raw_handshake(*rzmq_binds, *knobs, *fault, uring).await,
      Workload::RawFeed { knobs, msgs, chunks, maxmsgsize, tail } => run_raw_feed(*knobs, msgs, chunks, *maxmsgsize, tail, uring).await,
    }
  }

  /// Waits until the gauges are at rest (or 3 s), then lists what is not.
  async fn quiescence(fd_baseline: usize) -> (Vec<String>, String, usize, usize, bool) {
    static LAST_LEASES: std::sync::atomic::AtomicUsize = std::sync::atomic::AtomicUsize::new(0);
    let mut problems = Vec::new();
    let mut g = gauges();
    let mut fds = fd_count();
    for _ in 0..60 {
      g = gauges();
      fds = fd_count();
      let rest = g.send_pool_free == g.send_pool_total && g.recv_chunks_outstanding == 0 && g.recv_ring_provided == g.recv_ring_entries && g.handlers == 0 && fds <= fd_baseline;
      if rest {
        break;
      }
      tokio::time::sleep(Duration::from_millis(50)).await;
    }
    if g.send_pool_free != g.send_pool_total {
      problems.push(format!("send pool: {} of {} buffers free", g.send_pool_free, g.send_pool_total));
    }
    if g.recv_chunks_outstanding != 0 {
      problems.push(format!("{} receive chunks still lent out", g.recv_chunks_outstanding));
    }
    if g.recv_ring_entries != 0 && g.recv_ring_provided != g.recv_ring_entries {
      problems.push(format!("provided ring: {} of {} entries provided", g.recv_ring_provided, g.recv_ring_entries));
    }
    if g.handlers != 0 {
      problems.push(format!("fd: {} connection handlers still registered after every socket was closed", g.handlers));
    }
    // fd life cycle
    let log = take_fd_log();
    let mut open: std::collections::BTreeMap<i32, (u32, u32)> = Default::default(); // fd -> (submitted, completed ok)
    let mut handlers_seen = 0usize;
    for e in &log {
      match *e {
        FdEvent::HandlerAdded(fd) => {
          handlers_seen += 1;
          if let Some((s, c)) = open.insert(fd, (0, 0)) {
            if c == 0 {
              problems.push(format!("fd {} registered again although its previous registration saw {} close submissions and no completed close", fd, s));
            }
          }
        }
        FdEvent::CloseSubmitted(fd) => match open.get_mut(&fd) {
          Some(x) => {
            x.0 += 1;
            if x.0 > 1 {
              problems.push(format!("fd {}: close submitted {} times for one registration", fd, x.0));
            }
          }
          None => problems.push(format!("fd {}: close submitted for an fd with no registered handler", fd)),
        },
        FdEvent::CloseCompleted(fd, res) => {
          if res < 0 {
            problems.push(format!("fd {}: close completed with errno {}", fd, -res));
          }
          if let Some(x) = open.get_mut(&fd) {
            x.1 += 1;
          }
        }
        FdEvent::HandlerRemoved(_) => {}
      }
    }
    for (fd, (s, c)) in &open {
      if *c != 1 {
        problems.push(format!("fd {}: {} close submissions, {} completed closes (expected exactly one)", fd, s, c));
      }
    }
    if fds > fd_baseline {
      problems.push(format!("fd: /proc/self/fd grew from {} to {}", fd_baseline, fds));
    }
    let zc = LAST_LEASES.swap(g.send_pool_leases, std::sync::atomic::Ordering::SeqCst) < g.send_pool_leases;
    (problems, format!("{:?}", g), fds, handlers_seen, zc)
  }

  pub fn main() -> i32 {
    let mut input = String::new();
    use std::io::Read;
    let _ = std::io::stdin().read_to_string(&mut input);
    let case: Case = match serde_json::from_str(&input) {
      Ok(c) => c,
      Err(e) => {
        eprintln!("bad case: {}", e);
        return 2;
      }
    };
    let cfg = rzmq::uring::UringConfig {
      ring_entries: 256,
      default_send_zerocopy: case.cfg.zc_default,
      default_recv_multishot: case.cfg.ms_default,
      default_recv_buffer_count: case.cfg.recv_cnt as usize,
      default_recv_buffer_size: case.cfg.recv_size as usize,
      default_send_buffer_count: case.cfg.send_cnt as usize,
      default_send_buffer_size: case.cfg.send_size as usize,
      polling_strategy: rzmq::uring::UringPollingStrategy::low_power(),
      ..Default::default()
    };
    if let Err(e) = rzmq::uring::initialize_uring_backend(cfg) {
      eprintln!("io_uring init failed: {}", e);
      return 3;
    }
    let rt = tokio::runtime::Builder::new_multi_thread().worker_threads(3).enable_all().build().unwrap();
    rt.block_on(async {
      // warm-up so that lazily created descriptors (epoll, eventfd, blocking pool) exist
      let warm = Workload::Stream { pattern: Pattern::PushPull, side: Side::Both, sender_binds: false, knobs: Knobs { zerocopy: false, multishot: true, cork: false, zc_threshold: 1024 }, mech: Mech::Null, batches: vec![vec![vec![10]]], small_hwm: false };
      let _ = run_workload(&warm, false).await;
      let _ = run_workload(&warm, true).await;
      let _ = quiescence(usize::MAX).await;
      let fd_baseline = fd_count();
      for (idx, w) in case.workloads.iter().enumerate() {
        let tokio_obs = match tokio::time::timeout(Duration::from_secs(60), run_workload(w, false)).await {
          Ok(o) => o,
          Err(_) => Obs { inconclusive: Some("tokio run exceeded 60 s".into()), ..Default::default() },
        };
        let _ = take_fd_log();
        let before = fd_count();
        let uring_obs = match tokio::time::timeout(Duration::from_secs(60), run_workload(w, true)).await {
          Ok(o) => o,
          Err(_) => Obs { abs_violation: if tokio_obs.inconclusive.is_none() { Some("HANG: the io_uring run of this workload did not finish within 60 s (the Tokio run did)".into()) } else { None }, inconclusive: if tokio_obs.inconclusive.is_some() { Some("both exceeded 60 s".into()) } else { None }, ..Default::default() },
        };
        let (problems, g, after, handlers_seen, zc) = quiescence(fd_baseline.max(before)).await;
        let r = WResult { idx, tokio: tokio_obs, uring: uring_obs, quiescence: problems, gauges: g, fd_before: before, fd_after: after, handlers_seen, zc_used: zc };
        println!("C20RESULT {}", serde_json::to_string(&r).unwrap());
      }
    });
    rt.shutdown_timeout(Duration::from_secs(2));
    0
  }
}
