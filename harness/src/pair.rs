//! Sans-IO engine driver: builds `ZmtpEngine`s from public socket options through the facade,
//! moves bytes between two endpoints under a generated delivery schedule, models EOF, and
//! records what each side reported to the application.

use crate::keys;
use crate::wire::RefFrame;
use bytes::Bytes;
use rzmq::protocol::zmtp::actions::{AppAction, EngineOutput, NetAction};
use rzmq::protocol::zmtp::engine::{ZmtpEngine, ZmtpPhase};
use rzmq::socket::options as opt;
use serde::{Deserialize, Serialize};
use std::collections::VecDeque;

#[derive(Clone, Copy, Debug, PartialEq, Eq, Hash, Serialize, Deserialize)]
pub enum Mech {
  Null,
  Plain,
  Curve,
  Noise,
}

impl Mech {
  pub fn name(self) -> &'static str {
    match self {
      Mech::Null => "NULL",
      Mech::Plain => "PLAIN",
      Mech::Curve => "CURVE",
      Mech::Noise => "NOISE_XX",
    }
  }
  pub const ALL: [Mech; 4] = [Mech::Null, Mech::Plain, Mech::Curve, Mech::Noise];
}

/// Everything needed to build one endpoint's engine from public options.
#[derive(Clone, Debug, Serialize, Deserialize)]
pub struct EndSpec {
  pub socket_type: String,
  pub server: bool,
  pub mech: Mech,
  /// PLAIN: (user, password) — on a server the expected pair, on a client the presented pair.
  pub plain: Option<(String, String)>,
  /// CURVE / NOISE: seed of this side's static secret key.
  pub key_seed: u64,
  /// CURVE / NOISE client: seed of the server key it expects (None = not configured).
  pub peer_key_seed: Option<u64>,
  pub routing_id: Option<Vec<u8>>,
  pub allow_zmtp2: Option<bool>,
  pub maxmsgsize: Option<i64>,
  pub heartbeat: Option<(i32, i32)>,
  pub sndbatch: Option<(i32, i32)>,
  /// option ids to leave out of `options()` (e.g. a PLAIN server without a configured password)
  pub drop_opts: Vec<i32>,
}

impl EndSpec {
  pub fn new(socket_type: &str, server: bool, mech: Mech) -> Self {
    Self {
      socket_type: socket_type.to_string(),
      server,
      mech,
      plain: None,
      key_seed: if server { 1001 } else { 2002 },
      peer_key_seed: if server { None } else { Some(1001) },
      routing_id: None,
      allow_zmtp2: None,
      maxmsgsize: None,
      heartbeat: None,
      sndbatch: None,
      drop_opts: vec![],
    }
  }

  pub fn options(&self) -> Vec<(i32, Vec<u8>)> {
    let i = |v: i32| v.to_ne_bytes().to_vec();
    let mut o: Vec<(i32, Vec<u8>)> = Vec::new();
    match self.mech {
      Mech::Null => {}
      Mech::Plain => {
        if self.server {
          o.push((opt::PLAIN_SERVER, i(1)));
        }
        if let Some((u, p)) = &self.plain {
          o.push((opt::PLAIN_USERNAME, u.as_bytes().to_vec()));
          o.push((opt::PLAIN_PASSWORD, p.as_bytes().to_vec()));
        } else if !self.server {
          // A PLAIN client without credentials still has to enable the mechanism.
          o.push((opt::PLAIN_SERVER, i(0)));
        }
      }
      Mech::Curve => {
        let sk = keys::secret_from_seed(self.key_seed);
        if self.server {
          o.push((opt::CURVE_SERVER, i(1)));
        }
        o.push((opt::CURVE_SECRET_KEY, sk.to_vec()));
        if let Some(ps) = self.peer_key_seed {
          o.push((opt::CURVE_SERVER_KEY, keys::curve_public(&keys::secret_from_seed(ps)).to_vec()));
        }
      }
      Mech::Noise => {
        let sk = keys::secret_from_seed(self.key_seed);
        o.push((opt::NOISE_XX_ENABLED, i(1)));
        o.push((opt::NOISE_XX_STATIC_SECRET_KEY, sk.to_vec()));
        if let Some(ps) = self.peer_key_seed {
          o.push((opt::NOISE_XX_REMOTE_STATIC_PUBLIC_KEY, keys::noise_public(&keys::secret_from_seed(ps)).to_vec()));
        }
      }
    }
    if let Some(id) = &self.routing_id {
      o.push((opt::ROUTING_ID, id.clone()));
    }
    if let Some(a) = self.allow_zmtp2 {
      o.push((opt::ALLOW_ZMTP2, i(a as i32)));
    }
    if let Some(m) = self.maxmsgsize {
      o.push((opt::MAXMSGSIZE, m.to_ne_bytes().to_vec()));
    }
    if let Some((ivl, to)) = self.heartbeat {
      o.push((opt::HEARTBEAT_IVL, i(ivl)));
      o.push((opt::HEARTBEAT_TIMEOUT, i(to)));
    }
    if let Some((c, b)) = self.sndbatch {
      o.push((opt::SNDBATCH_COUNT, i(c)));
      o.push((opt::SNDBATCH_BYTES, i(b)));
    }
    o.retain(|(id, _)| !self.drop_opts.contains(id));
    o
  }

  pub fn build(&self) -> Result<ZmtpEngine, String> {
    rzmq::verif::engine(self.server, &self.socket_type, &self.options()).map_err(|e| e.to_string())
  }
}

#[derive(Clone, Debug, PartialEq, Eq, Serialize, Deserialize)]
pub enum AppEvt {
  Complete { identity: Option<Vec<u8>>, socket_type: Option<String> },
  Deliver(Vec<RefFrame>),
  Error(String),
}

pub fn frames_of(batch: &rzmq::FrameBatch) -> Vec<RefFrame> {
  batch.iter().map(|m| RefFrame { more: m.is_more(), command: m.is_command(), body: m.data().unwrap_or(&[]).to_vec() }).collect()
}

/// Splits an engine output into bytes to send, app events and whether a close was scheduled.
pub fn absorb(out: EngineOutput, wire: &mut Vec<u8>, apps: &mut Vec<AppEvt>) -> bool {
  let mut close = false;
  for a in out.net_actions {
    match a {
      NetAction::Send { data, .. } => wire.extend_from_slice(&data),
      NetAction::ScheduleClose(_) => close = true,
      NetAction::SetCork(_) => {}
    }
  }
  for a in out.app_actions {
    apps.push(match a {
      AppAction::HandshakeComplete { peer_identity, peer_socket_type } => {
        AppEvt::Complete { identity: peer_identity.map(|b| b.to_vec()), socket_type: peer_socket_type }
      }
      AppAction::DeliverMessage(b) => AppEvt::Deliver(frames_of(&b)),
      AppAction::PeerError(e) => AppEvt::Error(e.to_string()),
    });
  }
  close
}

pub fn phase_name(p: ZmtpPhase) -> &'static str {
  match p {
    ZmtpPhase::Greeting => "Greeting",
    ZmtpPhase::Security => "Security",
    ZmtpPhase::Ready => "Ready",
    ZmtpPhase::V2Identity => "V2Identity",
    ZmtpPhase::Data => "Data",
    ZmtpPhase::Closed => "Closed",
  }
}

/// One endpoint of a driven pair. `peer` may be a real engine or a scripted byte source.
pub struct Side {
  pub eng: ZmtpEngine,
  /// Bytes in flight towards this side.
  pub inbox: VecDeque<u8>,
  pub apps: Vec<AppEvt>,
  /// Everything this side put on the wire, in order.
  pub sent: Vec<u8>,
  /// False once this side has failed (its driver would close the link).
  pub open: bool,
  /// True once the driver delivered EOF to this side (peer closed).
  pub got_eof: bool,
}

impl Side {
  pub fn new(eng: ZmtpEngine) -> Self {
    Self { eng, inbox: VecDeque::new(), apps: Vec::new(), sent: Vec::new(), open: true, got_eof: false }
  }
  pub fn completed(&self) -> bool {
    self.apps.iter().any(|a| matches!(a, AppEvt::Complete { .. }))
  }
  pub fn n_complete(&self) -> usize {
    self.apps.iter().filter(|a| matches!(a, AppEvt::Complete { .. })).count()
  }
  pub fn errored(&self) -> bool {
    self.apps.iter().any(|a| matches!(a, AppEvt::Error(_)))
  }
  pub fn delivered(&self) -> Vec<Vec<RefFrame>> {
    self.apps.iter().filter_map(|a| if let AppEvt::Deliver(f) = a { Some(f.clone()) } else { None }).collect()
  }
  /// Feeds bytes, returns what the engine wants to send.
  pub fn feed(&mut self, data: &[u8]) -> Vec<u8> {
    let out = self.eng.on_network_bytes(Bytes::copy_from_slice(data));
    let mut wire = Vec::new();
    let n_before = self.apps.len();
    absorb(out, &mut wire, &mut self.apps);
    if self.apps[n_before..].iter().any(|a| matches!(a, AppEvt::Error(_))) {
      self.open = false;
    }
    self.sent.extend_from_slice(&wire);
    wire
  }
  pub fn start(&mut self) -> Vec<u8> {
    let out = self.eng.start();
    let mut wire = Vec::new();
    absorb(out, &mut wire, &mut self.apps);
    self.sent.extend_from_slice(&wire);
    wire
  }
}

/// Man-in-the-middle rewriting of the byte stream flowing towards side A. Positions refer to
/// offsets in the original (unmodified) stream.
#[derive(Clone, Debug, Serialize, Deserialize)]
pub enum MitmOp {
  /// Replace `del` original bytes starting at `pos` by `ins` (insert / delete / overwrite).
  Replace { pos: usize, del: usize, ins: Vec<u8> },
  /// Flip one bit of the original byte at `pos`.
  Flip { pos: usize, bit: u8 },
  /// Drop everything from `pos` on.
  Truncate { pos: usize },
}

impl MitmOp {
  pub fn pos(&self) -> usize {
    match self {
      MitmOp::Replace { pos, .. } | MitmOp::Flip { pos, .. } | MitmOp::Truncate { pos } => *pos,
    }
  }
}

#[derive(Default)]
pub struct Mitm {
  ops: Vec<MitmOp>,
  seen: usize,
  skip_until: usize,
  pub truncated: bool,
  pub applied: usize,
}

impl Mitm {
  pub fn new(mut ops: Vec<MitmOp>) -> Self {
    ops.sort_by_key(|o| o.pos());
    Self { ops, seen: 0, skip_until: 0, truncated: false, applied: 0 }
  }
  /// Transforms the next segment of the original stream.
  pub fn pass(&mut self, seg: &[u8]) -> Vec<u8> {
    let mut out = Vec::with_capacity(seg.len());
    for &byte in seg {
      let pos = self.seen;
      self.seen += 1;
      if self.truncated {
        continue;
      }
      let mut b = byte;
      let mut drop_byte = pos < self.skip_until;
      for op in self.ops.iter().filter(|o| o.pos() == pos) {
        self.applied += 1;
        match op {
          MitmOp::Replace { del, ins, .. } => {
            out.extend_from_slice(ins);
            if *del > 0 {
              self.skip_until = self.skip_until.max(pos + del);
              drop_byte = true;
            }
          }
          MitmOp::Flip { bit, .. } => b ^= 1 << (bit % 8),
          MitmOp::Truncate { .. } => {
            self.truncated = true;
          }
        }
      }
      if self.truncated {
        continue;
      }
      if !drop_byte {
        out.push(b);
      }
    }
    out
  }
  /// Inserts positioned at or after the end of the original stream.
  pub fn tail(&mut self) -> Vec<u8> {
    let mut out = Vec::new();
    if self.truncated {
      return out;
    }
    for op in self.ops.iter().filter(|o| o.pos() >= self.seen) {
      if let MitmOp::Replace { ins, .. } = op {
        self.applied += 1;
        out.extend_from_slice(ins);
      }
    }
    self.ops.retain(|o| o.pos() < self.seen);
    out
  }
}

/// A pair of engines joined by two byte queues, driven by a delivery schedule.
pub struct Pair {
  pub a: Side,
  pub b: Side,
  pub steps: u64,
  /// Optional rewriting of the B→A stream.
  pub mitm_to_a: Option<Mitm>,
  /// The unmodified B→A stream (recorded for aiming mutations).
  pub orig_to_a: Vec<u8>,
  pub last_chunk: usize,
}

/// One schedule step: direction (true = deliver to A, i.e. B→A) and byte count.
pub type Step = (bool, u16);

impl Pair {
  pub fn new(a: ZmtpEngine, b: ZmtpEngine) -> Self {
    Self::with_mitm(a, b, None)
  }

  pub fn with_mitm(a: ZmtpEngine, b: ZmtpEngine, mitm: Option<Mitm>) -> Self {
    let mut p = Self { a: Side::new(a), b: Side::new(b), steps: 0, mitm_to_a: mitm, orig_to_a: Vec::new(), last_chunk: 0 };
    let wa = p.a.start();
    p.b.inbox.extend(wa);
    let wb = p.b.start();
    p.enqueue_to_a(wb);
    p
  }

  fn enqueue_to_a(&mut self, wire: Vec<u8>) {
    self.orig_to_a.extend_from_slice(&wire);
    let wire = match &mut self.mitm_to_a {
      Some(m) => m.pass(&wire),
      None => wire,
    };
    self.a.inbox.extend(wire);
  }

  /// Puts bytes produced on side B's behalf (e.g. a batch framed directly) on the way to A.
  pub fn inject_to_a(&mut self, wire: Vec<u8>) {
    if self.a.open {
      self.enqueue_to_a(wire);
    }
  }

  /// Appends the MITM's trailing inserts (positions beyond the end of the original stream).
  pub fn flush_mitm_tail(&mut self) {
    if let Some(m) = &mut self.mitm_to_a {
      let t = m.tail();
      self.a.inbox.extend(t);
    }
  }

  /// Moves up to `n` in-flight bytes to the chosen side. Returns false if nothing moved.
  pub fn deliver(&mut self, to_a: bool, n: usize) -> bool {
    let dst = if to_a { &mut self.a } else { &mut self.b };
    if !dst.open {
      dst.inbox.clear();
      return false;
    }
    let n = n.min(dst.inbox.len());
    if n == 0 {
      return false;
    }
    let chunk: Vec<u8> = dst.inbox.drain(..n).collect();
    self.last_chunk = chunk.len();
    let wire = dst.feed(&chunk);
    if !dst.open {
      // dst failed: its driver closes the link; the other side will see EOF.
      dst.inbox.clear();
    }
    self.steps += 1;
    if to_a {
      if self.b.open {
        self.b.inbox.extend(wire);
      }
    } else if self.a.open {
      self.enqueue_to_a(wire);
    }
    true
  }

  pub fn in_flight(&self) -> usize {
    (if self.a.open { self.a.inbox.len() } else { 0 }) + (if self.b.open { self.b.inbox.len() } else { 0 })
  }

  /// Runs the schedule, then whole-buffer round-robin until quiescent. When a side has
  /// failed and nothing more can reach the other, the other gets the driver's EOF.
  pub fn run(&mut self, schedule: &[Step]) {
    for (to_a, n) in schedule {
      let n = (*n as usize).max(1);
      if !self.deliver(*to_a, n) {
        // try the other direction so schedules never stall on an empty queue
        self.deliver(!*to_a, n);
      }
    }
    let mut guard = 0;
    while self.in_flight() > 0 && guard < 10_000 {
      let na = self.a.inbox.len();
      self.deliver(true, na.max(1));
      let nb = self.b.inbox.len();
      self.deliver(false, nb.max(1));
      guard += 1;
    }
    // EOF model: a closed side means the other side's read returns EOF.
    if !self.a.open && self.b.open {
      self.b.got_eof = true;
    }
    if !self.b.open && self.a.open {
      self.a.got_eof = true;
    }
  }

  /// Application sends a message from one side; bytes are queued to the other.
  pub fn app_send(&mut self, from_a: bool, msg: rzmq::FrameBatch) -> Vec<AppEvt> {
    let src = if from_a { &mut self.a } else { &mut self.b };
    let out = src.eng.on_app_message(msg);
    let mut wire = Vec::new();
    let mut evts = Vec::new();
    absorb(out, &mut wire, &mut evts);
    src.sent.extend_from_slice(&wire);
    if from_a {
      if self.b.open {
        self.b.inbox.extend(wire);
      }
    } else if self.a.open {
      self.enqueue_to_a(wire);
    }
    evts
  }
}

/// Schedule strategy: chunk sizes biased to the sizes the greeting stages branch on.
pub fn schedule_strategy(max_len: usize) -> impl proptest::strategy::Strategy<Value = Vec<Step>> + Clone {
  use proptest::prelude::*;
  let n = prop_oneof![
    6 => prop::sample::select(vec![1u16, 2, 9, 10, 11, 12, 53, 54, 63, 64, 65]),
    2 => 1u16..200,
    2 => Just(u16::MAX),
  ];
  prop::collection::vec((any::<bool>(), n), 0..max_len)
}
